# -*- coding: utf-8 -*-
"""
C03 - every example string is matched by one of the regular expressions
rexpy returns.

E1 (unsampled path): every example collection over the class-covering
alphabets of mc.rex_alphabet x the option lattice (deviation-bounded on
configuration) x input forms (list, frequency dict, pandas Series /
categorical / list of Series), run on the REAL tdda.rexpy.extract /
pdextract.  E2 (sampled path): small Size settings x seeds x example sets of
3-5 strings, with tdda.rexpy.rexpy.random replaced by FakeRandom so that
EVERY answer of random.sample (all C(n,k) subsets at every call) is
enumerated by mc.engine.explore_choices.

Round 3 added five dimensions (layers `uclasses`, `meta-roles`,
`zero-counts`, `sampled-counts`, `real-random`; shared with C13):
  - one representative of every Unicode general category and of every class
    on which `re`, the third-party `regex` module and the str predicates
    disagree, alone / in a variable fragment / pairwise at one position;
  - every regex metacharacter in every syntactic role it can play, alone and
    with same-shape partners, x full_escape off/on;
  - frequency mappings as dict / Counter / OrderedDict, with zero-count
    entries (not examples) and, on the sampled path, count vectors over
    {1,2,3} (all 27 for triples);
  - the sampled path on the REAL random module with seeds {0, 1, None} from
    fixed global generator pre-states, with and without the extra letters
    that make the result depend on the draw.

Oracle (mc.models.rex_spec, independent of tdda): every supplied example that
no option discards (None; empty - after stripping when strip is set - iff
remove_empties) is matched IN FULL (re.match under UNICODE|DOTALL and
end == len) by at least one returned expression; with strip it is the
original, unstripped string that must match.

Violation signatures name the root cause, established by counterfactual
re-runs of the same configuration on a modified input (RexDriver.diagnose):
  bracket:{^,-}            the failure disappears both with '^' -> '~' and
                           with '-' -> '~' (the pair is what matters)
  nonascii-digit:U+XXXX    it disappears both when the non-ASCII
                           str.isdigit() characters become '7' and when they
                           become a non-ASCII letter; XXXX = first such
                           character of the first unmatched example
  A+B                      only curing both removes it
  sampled-last-attempt     only with a sampling Size: the same input is fully
                           matched without sampling and every unmatched example
                           is in the extractor's final working set (it was
                           appended after the last extraction)
  sampled-not-considered[:trailing-newline | :nonascii-digit:U+XXXX]
                           ditto, but an unmatched example never reached the
                           working set: the loop's own re-check accepted it.
                           Suffix when a returned expression accepts it with
                           re.match but not in full ('$' before a final
                           newline), or accepts it once [0-9] is read as the
                           perl digit class
                           (re-check done on the perl form)
  zero-count-entry         frequency mapping: the failure disappears when the
                           entries with count 0 are left out
  real-random-sampled:unmatched:seed=<int|None>:form=<form>
                           only on the real random module with a sampling Size
  raises:<Type>:<cause>    extract raised
  unmatched:opts=<needed options>:chars={needed character classes}
                           anything else: greedy minimisation (drop options,
                           drop examples, neutralise characters) of the
                           failing input

This module also holds the driver shared with C13 (RexDriver).
"""
import contextlib
import io
import os
import unicodedata

from mc.engine import Check, Res, Diverged, explore_choices
from mc import rex_alphabet as A
from mc import rex_seams as S
from mc.models import rex_spec as M

ASCII_SINGLES = [chr(i) for i in range(128)]
# thorough pool for the sampled path: with the characters of the two
# unsampled-path defects
T_SAMPLED_POOL = ['a', 'b', 'Z9', '12', 'a-b', 'x_y', ' ', '^', '-', '٣']


def char_class(c):
    if 'a' <= c <= 'z':
        return 'a'
    if 'A' <= c <= 'Z':
        return 'A'
    if '0' <= c <= '9':
        return '9'
    cat = unicodedata.category(c)
    if c.isspace():
        # the separators U+001C..1F and the non-ASCII spaces are named by
        # category (re and the regex module disagree on some of them)
        return 's' if c in ' \t\n\r\x0b\x0c' else 's:' + cat
    if ord(c) < 128:
        return c if c.isprintable() else 'c'
    if c.isdigit():
        return 'n' if cat == 'Nd' else 'n:' + cat
    if c.isalnum():
        return 'u' if cat in ('Ll', 'Lu', 'Lo') else 'u:' + cat
    return 'o:' + cat


def classes_of(s):
    return '{%s}' % ','.join(sorted(set(char_class(c) for c in s)))


def substitute(examples, old, new):
    """Replace a character in every example (list or dict form); examples
    that become equal are merged."""
    if isinstance(examples, dict):
        out = {}
        for (k, n) in examples.items():
            k2 = k.replace(old, new)
            out[k2] = out.get(k2, 0) + n
        return out
    return [None if s is None else s.replace(old, new) for s in examples]


def substitute_suffix(examples, suffix, new):
    """Replace a trailing `suffix` of every example (list or dict form)."""
    def f(s):
        return s[:-len(suffix)] + new if s.endswith(suffix) else s
    if isinstance(examples, dict):
        out = {}
        for (k, n) in examples.items():
            out[f(k)] = out.get(f(k), 0) + n
        return out
    return [None if s is None else f(s) for s in examples]


def regex_kinds(rexes):
    """Coarse description of the returned list for the outcome statistic."""
    flags = set()
    for r in rexes:
        if '[' in r:
            flags.add('B')
        if '\\d' in r:
            flags.add('d')
        if '\\s' in r:
            flags.add('s')
        if '(' in r:
            flags.add('G')
        if '{' in r or '+' in r or '*' in r or '?' in r:
            flags.add('Q')
        if '.' in r.replace('\\.', ''):
            flags.add('.')
    return ''.join(sorted(flags)) or 'L'


class RexDriver(Check):
    """Shared enumeration and real-code driver for C03 and C13."""

    prune_axes = False       # C13 adds max_patterns / min_strings_per_pattern

    # ------------------------------------------------------------ layers
    def hashseeds(self, tier, verif_seed):
        return [verif_seed % 3] if tier == 'quick' else [0, 1, 2]

    def extra_coverage(self):
        tier = getattr(self, '_tier', 'quick')
        ax = self.axes()
        return {
            'alphabet': {'sigma_q': len(A.SIGMA_Q), 'sigma_t': len(A.SIGMA_T),
                         'strings_q_L2': len(self.pool_q()),
                         'structured': len(A.STRUCTURED),
                         'structured_sets': len(A.STRUCTURED_SETS)},
            'option_lattice_points': len(A.option_lattice(None, ax)),
            'deviation_bound': ('configuration: full lattice for sets of '
                                'size <=1, <=2 options changed for pairs%s; '
                                'sampled path: full choice tree of every '
                                'random.sample call (unbounded)'
                                % ('' if tier == 'quick' else
                                   ' plus the full lattice for pairs over '
                                   'Sigma_q')),
            'size_settings': len(A.SIZE_SETTINGS(tier)),
        }

    def layers(self, tier):
        self._tier = tier
        L = [('n01-full', 'example sets of size <=1 (empty, null, every '
              'string over Sigma_q up to length 2, all 128 ASCII characters, '
              'structured and >99-fragment strings) and hand-picked larger '
              'sets x the full option lattice; dict and pandas forms'),
             ('n2-dev2', 'all pairs of the 157 strings over Sigma_q (L<=2) x '
              'the 49 option points within 2 deviations of the default (list '
              'form) + dict and pandas object forms at the default'),
             ('n2-structured', 'all pairs of structured examples x options '
              'within 2 deviations'),
             ('sampled', 'E2: sets of 3-5 from the 8-string pool x 8 Size '
              'settings x seeds None/0/1, every random.sample answer'),
             ('families', 'structured families: 2-4 strings of one shape '
              '(1-3 fragments over 7 character classes) whose run lengths '
              '{0,1,2,3,4,6} differ in one fragment or in all x 12 option '
              'points (variableLengthFrags off/on x 6)'),
             ('two-shape', 'two shapes differing in one fragment class, '
              'sets of 10-12 strings / 4-7 punctuation characters around the '
              'group limits (x 12 option points), and two-shape quadruples / '
              'pairs of equal frequency x variableLengthFrags off/on'),
             ('wide', 'K same-shape examples, K in 10..13, one fragment '
              'constant except at input position q (every q, same-class and '
              'class-widening odd value, every counting / constant fragment '
              'pair of 9 shapes); 4-7 punctuation characters in every '
              'rotation; pairs of strings with 98-101 fragments; list (4 '
              'option points), dict and pandas forms'),
             ('history', 'E3: every sequence of 1-2 (3 for the extra-letter '
              'points) extract() calls in ONE process over menus of 3 '
              'example sets sharing coarse signature and group count but '
              'differing in where the variable part sits, x extra_letters '
              '{None . - _-.} x tag x dialect, and mixed extra-letter '
              'settings; clauses on the last call, state rebuilt from the '
              'pristine module state for every sequence'),
             ('refine', 'E2: sets of 4-7 from pools of one common shape that '
              'make the fragment class change between passes (a-f / non-hex '
              'letters / digits / upper / non-ASCII digit / trailing newline '
              '/ extra letters) x 8 Size settings, every sample answer')]
        L += self.round3_layers()
        if tier == 'thorough':
            L += [('t-n1-wide', 'singles over Sigma_t (L<=2) and Sigma_q '
                   '(L=3) x full lattice [hash seed 0 only]'),
                  ('t-ascii2', 'all pairs of single ASCII characters x '
                   'options within 1 deviation [hash seed 0 only]'),
                  ('t-n2-structured-rest', 'pairs of structured examples x '
                   'the rest of the full lattice [hash seed 0 only]'),
                  ('t-n3-dev2', 'all triples of the 40-string sub-alphabet x '
                   'options within 2 deviations [hash seed 0 only]'),
                  ('t-sampled', 'E2: sets of 3-5 from the 10-string pool '
                   '(with ^ - and a non-ASCII digit) x 27 Size settings x '
                   'seeds None/0/1, plus dict form and reversed sample order '
                   'at seed None; sets of 6 x 8 Size settings '
                   '[hash seed 0 only]'),
                  ('t-n2-rest', 'all pairs over Sigma_q (L<=2) x the rest of '
                   'the full lattice (3+ deviations) [hash seed 0 only]'),
                  ('t-n2-wide', 'all pairs of the 703 strings over Sigma_t '
                   '(L<=2) x options within 1 deviation [hash seed 0 only]')]
        return L

    def round3_layers(self):
        return [
            ('uclasses', 'one representative of every Unicode general '
             'category (and of every class on which re / regex / str methods '
             'disagree): alone, doubled, in a variable fragment, and every '
             'pair of representatives at the same position x 12 option '
             'points; dict and pandas forms at the default'),
            ('meta-roles', 'every regex metacharacter in every syntactic '
             'role (quantifier braces, group openers, bracket expressions, '
             'escapes, anchors, alternation, repetition): alone and with '
             'same-shape partners varying letters / digits / prefix / suffix '
             'x 8 option points x full_escape off/on'),
            ('zero-counts', 'frequency dictionaries with zero-count entries '
             '({s:0}, {s:0,t:0}, every ordered pair with one zero) as dict '
             '(options within 1 deviation), Counter and OrderedDict'),
            ('sampled-counts', 'E2: frequency dictionaries with counts over '
             '{1,2,3} on the sampled path: all 27 count vectors for triples '
             'of a 6-string pool, uniform and cyclic vectors for its sets of '
             '4 x 8 Size settings, every sample answer; dict / Counter / '
             'OrderedDict'),
            ('real-random', 'the REAL random module (no seam): sets of 3-4 '
             'from the 8-string pool x 8 Size settings x seeds {0, 1, None} '
             'x two global generator pre-states x {default, extra letters '
             '_-. (the result then depends on the draw)}; list and dict '
             'forms'),
        ]

    def pool_q(self):
        return A.strings_upto(A.SIGMA_Q, 2)

    def cases(self, tier, layer):
        if layer.startswith('t-') and \
                os.environ.get('PYTHONHASHSEED', '0') not in ('0', ''):
            return
        if layer == 'n01-full':
            yield {'ex': [], 'pts': 'full', 'forms': 'all'}
            yield {'ex': [None], 'pts': 'full', 'forms': 'all'}
            seen = set()
            singles = (self.pool_q() + ASCII_SINGLES + A.STRUCTURED
                       + A.LONG_STRUCTURED)
            for s in singles:
                if s in seen:
                    continue
                seen.add(s)
                yield {'ex': [s], 'pts': 'full', 'forms': 'all'}
                yield {'ex': [None, s], 'pts': 'dev1', 'forms': 'list'}
            for xs in A.STRUCTURED_SETS:
                yield {'ex': list(xs), 'pts': 'full', 'forms': 'all'}
        elif layer == 'n2-dev2':
            for xs in A.example_sets(self.pool_q(), 2):
                yield {'ex': xs, 'pts': 'dev2', 'forms': 'lite'}
        elif layer == 'n2-structured':
            for xs in A.example_sets(A.STRUCTURED, 2):
                yield {'ex': xs, 'pts': 'dev2', 'forms': 'all'}
        elif layer == 'sampled':
            for c in self.sampled_cases(A.SAMPLED_POOL_Q, (3, 4, 5),
                                        A.SIZE_SETTINGS('quick'), A.SEEDS,
                                        ['list'], ['canonical']):
                yield c
        elif layer == 'families':
            for xs in A.family_sets(tier):
                yield {'ex': xs, 'pts': 'family', 'forms': 'list'}
        elif layer == 'two-shape':
            for xs in A.two_shape_sets(tier):
                yield {'ex': xs, 'pts': 'family', 'forms': 'list'}
            for xs in A.tie_sets(tier):
                yield {'ex': xs, 'pts': 'vlf', 'forms': 'list'}
            for xs in A.boundary_sets():
                yield {'ex': xs, 'pts': 'family', 'forms': 'list'}
        elif layer == 'refine':
            for c in self.refine_cases():
                yield c
        elif layer == 'wide':
            for xs in A.wide_sets():
                yield {'ex': xs, 'pts': 'wide', 'forms': 'lite'}
            for xs in A.fragment_limit_sets():
                yield {'ex': xs, 'pts': 'vlf', 'forms': 'list'}
        elif layer == 'history':
            for c in self.history_cases():
                yield c
        elif layer in ('uclasses', 'meta-roles', 'zero-counts',
                       'sampled-counts', 'real-random'):
            for c in self.round3_cases(layer):
                yield c
        elif layer == 't-n1-wide':
            seen = set(self.pool_q())
            for s in (A.strings_upto(A.SIGMA_T, 2)
                      + A.strings_upto(A.SIGMA_Q, 3)):
                if s not in seen:
                    seen.add(s)
                    yield {'ex': [s], 'pts': 'full', 'forms': 'list'}
        elif layer == 't-ascii2':
            for xs in A.example_sets(ASCII_SINGLES, 2):
                yield {'ex': xs, 'pts': 'dev1', 'forms': 'list'}
        elif layer == 't-n2-structured-rest':
            for xs in A.example_sets(A.STRUCTURED, 2):
                yield {'ex': xs, 'pts': 'rest', 'forms': 'list'}
        elif layer == 't-n3-dev2':
            for xs in A.example_sets(A.sub_alphabet(40), 3):
                yield {'ex': xs, 'pts': 'dev2', 'forms': 'all'}
        elif layer == 't-sampled':
            for c in self.sampled_cases(T_SAMPLED_POOL, (3, 4, 5),
                                        A.SIZE_SETTINGS('thorough'), A.SEEDS,
                                        ['list', 'dict'],
                                        ['canonical', 'reversed']):
                if c['form'] == 'dict' and c['order'] == 'reversed':
                    continue
                yield c
            for c in self.sampled_cases(T_SAMPLED_POOL, (6,),
                                        A.SIZE_SETTINGS('quick'), [None],
                                        ['list'], ['canonical']):
                yield c
        elif layer == 't-n2-rest':
            for xs in A.example_sets(self.pool_q(), 2):
                yield {'ex': xs, 'pts': 'rest', 'forms': 'list'}
        elif layer == 't-n2-wide':
            for xs in A.example_sets(A.strings_upto(A.SIGMA_T, 2), 2):
                yield {'ex': xs, 'pts': 'dev1', 'forms': 'list'}
        else:
            raise ValueError(layer)

    def round3_cases(self, layer):
        """Layers shared by C03 and C13 (third strengthening round)."""
        if layer == 'uclasses':
            for xs in A.uclass_sets():
                yield {'ex': xs, 'pts': 'family', 'forms': 'lite'}
        elif layer == 'meta-roles':
            for xs in A.meta_role_sets():
                yield {'ex': xs, 'pts': 'meta', 'forms': 'list'}
        elif layer == 'zero-counts':
            singles = []
            for s in self.pool_q() + A.STRUCTURED:
                if s not in singles:
                    singles.append(s)
            for d in A.zero_count_dicts(singles, A.sub_alphabet(12)):
                # 'keys' records the insertion order (the engine's case key
                # sorts mapping keys)
                yield {'ex': d, 'keys': list(d), 'pts': 'dev1',
                       'forms': 'dicts'}
        elif layer == 'sampled-counts':
            for c in self.sampled_count_cases():
                yield c
        elif layer == 'real-random':
            for c in self.real_random_cases():
                yield c
        else:
            raise ValueError(layer)

    def sampled_count_cases(self, prune=None, settings=None, sizes=(4,)):
        """(set, count vector, mapping form, Size).  The mapping form is
        orthogonal to the counts: Counter / OrderedDict run with the cyclic
        vector only."""
        def emit(xs, counts, form, st):
            c = {'ex': xs, 'counts': counts, 'size': st, 'seed': None,
                 'form': form, 'order': 'canonical'}
            if prune is not None:
                c['prune'] = prune
            return c
        settings = settings or A.SIZE_SETTINGS('quick')
        for xs in A.example_sets(A.sub_alphabet(6), 3):
            for counts in A.count_vectors(3, full=True):
                for st in settings:
                    yield emit(xs, counts, 'dict', st)
        for n in sizes:
            for xs in A.example_sets(A.sub_alphabet(6), n):
                vecs = A.count_vectors(n)
                for counts in vecs:
                    for st in settings:
                        yield emit(xs, counts, 'dict', st)
                        if counts == vecs[3] and n == 4:
                            yield emit(xs, counts, 'counter', st)
                            yield emit(xs, counts, 'odict', st)

    def real_random_cases(self):
        """With two or more extra letters the letters kept depend on the
        first sample, so that the RESULT depends on what is drawn (without
        them every draw ends in the same expressions for these pools)."""
        for n in (3, 4):
            for xs in A.example_sets(A.SAMPLED_POOL_Q, n):
                for st in A.SIZE_SETTINGS('quick'):
                    for kw in A.REAL_OPTION_POINTS:
                        for seed in A.REAL_SEEDS:
                            for pre in A.REAL_PRESTATES:
                                # the second pre-state only where the draw
                                # can matter and the seed is a boundary value
                                if pre != A.REAL_PRESTATES[0] and \
                                        (not kw or seed not in (0, None)):
                                    continue
                                yield {'ex': xs, 'size': st, 'seed': seed,
                                       'real': pre, 'form': 'list',
                                       'opts': kw}
                    yield {'ex': xs, 'counts': A.count_vectors(n)[3],
                           'size': st, 'seed': 0, 'opts': {},
                           'real': A.REAL_PRESTATES[0], 'form': 'dict'}

    def history_cases(self):
        pts = A.HISTORY_OPTION_POINTS
        els = [o for o in pts if not o['tag'] and o['dialect'] == 'portable']
        for (name, menu) in A.history_menus():
            for o in pts:
                yield {'hist': name, 'menu': menu, 'opts': [o], 'depth': 2}
            for o in els:
                yield {'hist': name, 'menu': menu, 'opts': [o], 'depth': 3,
                       'only_depth': 3}
            for i in range(len(els)):
                for j in range(i + 1, len(els)):
                    yield {'hist': name, 'menu': menu,
                           'opts': [els[i], els[j]], 'depth': 2,
                           'mixed_only': True}

    def refine_cases(self):
        for (name, pool, sizes, kw) in A.REFINE_POOLS:
            for n in sizes:
                for xs in A.example_sets(pool, n):
                    for st in A.SIZE_SETTINGS('quick'):
                        yield {'ex': xs, 'size': st, 'seed': None,
                               'form': 'list', 'order': 'canonical',
                               'opts': kw}

    def sampled_cases(self, pool, sizes, settings, seeds, forms, orders):
        for n in sizes:
            for xs in A.example_sets(pool, n):
                for st in settings:
                    for (i, seed) in enumerate(seeds):
                        # two integer seeds differ only in their truth value
                        # under FakeRandom (the real-random layer runs real
                        # seeds): the second one not for the largest sets
                        if i > 1 and n == max(sizes) and len(sizes) > 1:
                            continue
                        # forms / orders beyond the first only with seed None
                        for form in forms:
                            for order in orders:
                                if (form, order) != (forms[0], orders[0]) \
                                        and i > 0:
                                    continue
                                yield {'ex': xs, 'size': st, 'seed': seed,
                                       'form': form, 'order': order}

    # ------------------------------------------------------- option points
    def axes(self):
        if not self.prune_axes:
            return A.OPTION_AXES
        ax = type(A.OPTION_AXES)(A.OPTION_AXES)
        ax.update(A.PRUNE_AXES)
        return ax

    def points(self, name):
        """Option dicts of a named point set: 'full' (whole lattice), 'devN'
        (within N deviations of the default), 'rest' (more than 2)."""
        cache = self.__dict__.setdefault('_pts', {})
        if name in cache:
            return cache[name]
        ax = self.axes()
        full = A.option_lattice(None, ax)
        if name == 'full':
            opts = full
        elif name == 'rest':
            opts = [o for o in full if A.n_deviations(o, ax) > 2]
        elif name == 'family':
            opts = [dict(o) for o in A.FAMILY_OPTION_POINTS]
        elif name == 'meta':
            opts = [dict(o) for o in A.META_OPTION_POINTS]
        elif name == 'wide':
            opts = [dict(A.DEFAULT_OPTIONS, **d) for d in
                    ({}, {'tag': True}, {'dialect': 'perl'},
                     {'variableLengthFrags': True})]
        elif name == 'vlf':
            opts = [dict(o) for o in A.FAMILY_OPTION_POINTS
                    if A.n_deviations(o) <= 1 and A.n_deviations(
                        dict(o, variableLengthFrags=False)) == 0]
        else:
            opts = A.option_lattice(int(name[3:]), ax)
        cache[name] = opts
        return opts

    def form_points(self, pts, forms):
        """[(form, opts)].  The input form counts as one deviation; pandas
        forms exist only at the default options (pdextract takes none)."""
        key = (pts, forms)
        cache = self.__dict__.setdefault('_fpts', {})
        if key in cache:
            return cache[key]
        ax = self.axes()
        if forms == 'dicts':
            # the examples ARE a mapping: dict at every point, the other
            # mapping forms at the default
            out = [('dict', o) for o in self.points(pts)]
            out += [(f, dict(A.DEFAULT_OPTIONS)) for f in A.DICT_FORMS[1:]]
            cache[key] = out
            return out
        out = [('list', o) for o in self.points(pts)]
        if forms == 'all':
            bound = (99 if pts == 'full' else
                     int(pts[3:]) if pts.startswith('dev') else 0)
            out += [('dict', o) for o in self.points('dev2' if pts == 'full'
                                                     else pts)
                    if A.n_deviations(o, ax) + 1 <= bound]
            if bound >= 1:
                out += [(f, dict(A.DEFAULT_OPTIONS)) for f in A.DICT_FORMS[1:]]
                out += [('pd:%s' % k, dict(A.DEFAULT_OPTIONS))
                        for k in A.PANDAS_KINDS]
        elif forms == 'lite':
            out.append(('dict', dict(A.DEFAULT_OPTIONS)))
            out.append(('pd:object', dict(A.DEFAULT_OPTIONS)))
        cache[key] = out
        return out

    # ------------------------------------------------------------- worker
    def setup_worker(self, tier):
        import warnings
        warnings.filterwarnings('ignore')
        import tdda.rexpy.rexpy as rx
        import tdda.rexpy as rexpy_pkg
        self.rx = rx
        self.pkg = rexpy_pkg
        self.tier = tier
        # pristine module state (found by introspection, including mutable
        # default arguments); restored before every case and every history
        self.state = S.ModuleState(rx)

    def build(self, examples, form):
        if form == 'list':
            return A.as_list(examples)
        if form in A.DICT_FORMS:
            return A.as_mapping(examples if isinstance(examples, dict)
                                else A.as_dict(examples), form)
        if form.startswith('pd:'):
            return A.as_series(examples, form[3:])
        raise ValueError(form)

    def supplied(self, examples, form):
        """What the oracle treats as the supplied examples."""
        if isinstance(examples, dict):
            return dict(examples)
        if form in A.DICT_FORMS:
            return dict(A.as_dict(examples))
        return list(examples)

    def call(self, examples, form, opts, size=None, seed=None, fake=None,
             as_object=False, real=False):
        """One execution of the real code.  Returns (rexes, extractor|None,
        exception|None).  `real`: leave the real random module in place (the
        caller owns the global generator state, see S.real_random)."""
        data = self.build(examples, form)
        fake = fake or S.FakeRandom(None)
        x = None
        try:
            with (contextlib.nullcontext() if real
                  else S.patched_random(fake)):
                if form.startswith('pd:'):
                    rex = self.pkg.pdextract(data)
                else:
                    kw = A.kwargs_of(opts)
                    if size is not None:
                        kw['size'] = S.make_size(size)
                    if seed is not None:
                        kw['seed'] = seed
                    if as_object:
                        x = self.pkg.extract(data, as_object=True, **kw)
                        rex = x.results.rex if x.results else []
                    else:
                        rex = self.pkg.extract(data, **kw)
        except Diverged:                # harness: choice replay went astray
            raise
        except Exception as e:          # noqa - classified by the caller
            return None, None, e
        return list(rex), x, None

    def run_case(self, case):
        R = Res()
        self.fresh_state()
        buf = io.StringIO()
        with contextlib.redirect_stdout(buf), contextlib.redirect_stderr(buf):
            if 'real' in case:
                self.run_real(R, case)
            elif 'size' in case:
                self.run_sampled(R, case)
            elif 'menu' in case:
                self.run_history(R, case)
            else:
                self.run_unsampled(R, case)
        return R

    def fresh_state(self):
        self.state.restore()
        S.reset_rexpy_state()

    def case_examples(self, case):
        """The examples of a sampled / real-random case: the list, or the
        ordered frequency mapping when the case carries a count vector."""
        if case.get('counts'):
            return A.with_counts(case['ex'], case['counts'])
        return case['ex']

    def history_sequences(self, case):
        """Op sequences of a history case: op = (set index, option index)."""
        import itertools
        ops = [(i, j) for j in range(len(case['opts']))
               for i in range(len(case['menu']))]
        for L in range(1, case['depth'] + 1):
            if case.get('only_depth') and L != case['only_depth']:
                continue
            for seq in itertools.product(ops, repeat=L):
                if case.get('mixed_only') and L > 1 and \
                        len(set(j for (_, j) in seq)) < 2:
                    continue
                yield seq

    def run_history(self, R, case):
        """E3: every sequence is rebuilt from the pristine module state;
        the property's clauses are checked on the LAST call (they do not
        depend on state, so a stale cache shows as a plain violation).  A
        last-call result that differs from the fresh-state result without
        breaking a clause is counted as unspecified for this property (it
        belongs to C14)."""
        menu, optlist = case['menu'], case['opts']
        fresh = {}
        seen = set()
        for seq in self.history_sequences(case):
            self.fresh_state()
            res = None
            for (i, j) in seq:
                res = self.call(menu[i], 'list', optlist[j])
                R.ev()
            seen.add(self.state.fingerprint())
            (i, j) = seq[-1]
            if len(seq) == 1:
                fresh[(i, j)] = res
            elif (i, j) not in fresh:
                self.fresh_state()
                fresh[(i, j)] = self.call(menu[i], 'list', optlist[j])
                R.ev(1, checked=0)
            self.judge_history(R, case, seq, menu[i], optlist[j], res,
                               fresh[(i, j)])
        R.states = len(seen)

    def describe_history(self, case, seq):
        return [{'examples': case['menu'][i],
                 'options': A.opt_key(case['opts'][j])} for (i, j) in seq]

    # -------------------------------------------------------- diagnosis
    def cures(self, supplied, focus=None):
        """Known root causes as (signature, [substitution lists]).  Each list
        removes the suspected trigger in a different way; the cause is
        accepted only if EVERY one of them makes the failure disappear (so a
        defect that merely involves the same character is not attributed).
          non-ASCII str.isdigit() characters -> '7' / -> a non-ASCII letter
          {^,-}: '^' -> '~' / '-' -> '~'  (either breaks up the pair)"""
        strings = [s for s in supplied if s is not None]
        chars = set(''.join(strings))
        out = []
        nad = [c for c in sorted(chars)
               if c.isdigit() and not ('0' <= c <= '9')]
        if nad:
            first = None
            for s in list(focus or []) + strings:
                for c in s:
                    if c in nad:
                        first = c
                        break
                if first:
                    break
            out.append(('nonascii-digit:U+%04X' % ord(first),
                        [[(c, '7') for c in nad],
                         [(c, '\u00e8') for c in nad]]))
        if '^' in chars and '-' in chars:
            out.append(('bracket:{^,-}', [[('^', '~')], [('-', '~')]]))
        return out

    def diagnose(self, supplied, opts, fails, focus=None):
        """fails(supplied', opts') -> bool re-runs the configuration on a
        modified input.  Returns a root-cause signature: a known cause (or a
        combination of them) established by counterfactual substitution, else
        the minimised trigger `opts=<needed options>:chars={needed classes}`."""
        if isinstance(supplied, dict) and 0 in supplied.values():
            # a zero-count entry was supplied zero times: does the failure
            # disappear without those entries?
            if not fails(dict((k, n) for (k, n) in supplied.items() if n),
                         opts):
                return 'zero-count-entry'
        cures = self.cures(supplied, focus)

        def apply(s2, subs):
            for (old, new) in subs:
                s2 = substitute(s2, old, new)
            return s2

        def cured(families):
            nways = max(len(f[1]) for f in families)
            for w in range(nways):
                s2 = supplied
                for (sig, ways) in families:
                    s2 = apply(s2, ways[min(w, len(ways) - 1)])
                if fails(s2, opts):
                    return False
            return True
        for fam in cures:
            if cured([fam]):
                return fam[0]
        if len(cures) > 1 and cured(cures):
            return '+'.join(c[0] for c in cures)
        return self.minimise(supplied, opts, fails)

    def minimise(self, supplied, opts, fails):
        """Greedy reduction of a failing (input, options): reset each
        non-default option that is not needed, replace by the neutral letter
        'q' each character that is not needed.  Names what remains."""
        ax = dict(A.OPTION_AXES)
        ax.update(A.PRUNE_AXES)
        ax.update(A.EXTRA_AXES)
        cur = dict(opts)
        need = {}
        for k in list(A.OPTION_AXES) + list(A.PRUNE_AXES) + \
                list(A.EXTRA_AXES):
            if k in cur and cur[k] != ax[k][0]:
                trial = dict(cur)
                trial[k] = ax[k][0]
                if fails(supplied, trial):
                    cur = trial
                else:
                    need[k] = cur[k]
        cur_s = supplied
        # examples that are not needed
        for e in list(supplied):
            if isinstance(cur_s, dict):
                trial = dict((k, v) for (k, v) in cur_s.items() if k != e)
            else:
                trial = [x for x in cur_s if x != e]
            if len(trial) < len(cur_s) and trial and fails(trial, cur):
                cur_s = trial
        needc = []
        strings = [s for s in cur_s if s is not None]
        for c in sorted(set(''.join(strings))):
            if c == 'q':
                continue
            t = substitute(cur_s, c, 'q')
            if fails(t, cur):
                cur_s = t
            else:
                needc.append(c)
        return 'opts=%s:chars={%s}' % (
            A.opt_key(need), ','.join(sorted(set(char_class(c)
                                                 for c in needc))))


class C03(RexDriver):
    pid = 'C03'
    title = ('every example string is matched by one of the regular '
             'expressions rexpy returns')
    technique = ('bounded exhaustive enumeration of example collections x '
                 'option lattice x input forms on the real rexpy (E1), and '
                 'exhaustive enumeration of every random.sample answer for '
                 'small Size settings (E2 choice-point DFS), against an '
                 'independent full-match oracle')
    rule = ('cases = example sets (size<=1 over Sigma_q L<=2, all ASCII '
            'characters, structured strings: full 240-point option lattice; '
            'size 2 over the 157 strings and over the structured list: '
            'options within 2 deviations of the default (for the structured '
            'list the input form is counted as a deviation, for the 157 '
            'strings dict and pandas forms run at the default only); '
            'thorough adds Sigma_t, L=3, triples, the rest of '
            'the lattice); structured families generated from a grammar '
            '(1-3 fragments over 7 character classes, run lengths '
            '{0,1,2,3,4,6} differing in one or in all fragments, 2-4 strings, '
            'one or two shapes) x 12 option points with variableLengthFrags '
            'off/on; and, for the sampled path, (set of 4-7 strings of one '
            'shape whose class is refined between passes, or set of 3-5 strings, '
            'Size(do_all, do_all_exceptions, max_sampled_attempts) in '
            '{1,2}^3, seed) with every sample answer explored, also for '
            'frequency mappings with counts over {1,2,3}; one representative '
            'of every Unicode general category (37 characters) alone, in a '
            'variable fragment and pairwise; 124 strings with every regex '
            'metacharacter in every syntactic role x full_escape; frequency '
            'mappings with zero-count entries; sets of 3-4 on the real '
            'random module x seeds {0,1,None} x pre-states; an evaluation '
            'is one extract/pdextract call; a case is non-trivial when at '
            'least one supplied example is not discarded by the options of '
            'at least one of its evaluations')
    assumptions = [
        'strings over the stated alphabets only (Sigma_q 12 chars / Sigma_t '
        '26 chars, length <= 2 (3 for singles in thorough), plus fixed '
        'structured lists); example sets of size <= 2 (3 in thorough over a '
        '40-string sub-alphabet) plus hand-picked larger sets',
        'configuration is deviation-bounded for sets of size 2 (<= 2 options '
        'changed from the default; full lattice only in thorough)',
        'pdextract accepts no options, so pandas forms run at the default '
        'options only; text columns are object dtype or categorical',
        'java / posix dialects (not Python syntax) and lone surrogates are '
        'outside the statement; frequency-dictionary entries with count 0 '
        'are not examples',
        'with FakeRandom the seed changes only the seed/getstate/setstate '
        'calls; every subset any seed could select is enumerated; the order '
        'of the returned sample is canonical (thorough: also reversed); the '
        'real-random layer runs the unpatched random module from the states '
        'random.Random(11|12).getstate() (restored afterwards)',
        'Unicode: one representative per general category (BMP, two astral), '
        'not every character; unassigned code points count as unicode '
        'strings; negative dictionary counts are outside (documented as '
        'non-negative); full_escape is enumerated in the meta-roles layer '
        'only',
        'thorough repeats only the quick layers under hash seeds 1 and 2',
        'every case (and every history) starts from the pristine module '
        'state found by introspection (module globals, class attributes, '
        'mutable default arguments), restored in place',
        'histories: depth <= 2 (3 for the four extra-letter settings), menus '
        'of 3 two-string sets; a last-call result that differs from the '
        'fresh-state result but still satisfies the property is counted as '
        'unspecified here (state independence is C14\'s statement)',
        'trusted base: python re as the meaning of an expression',
    ]

    # ----------------------------------------------------------- E1
    def failing(self, supplied, form, opts):
        """Run the real code once; (rexes|None, exception|None, unmatched)."""
        rex, _, exc = self.call(supplied, form, opts)
        if exc is not None:
            return None, exc, None
        um = M.unmatched(rex, self.supplied(supplied, form),
                         bool(opts.get('strip')),
                         bool(opts.get('remove_empties')))
        return rex, None, um

    def check_one(self, R, examples, form, opts, sub):
        supplied = self.supplied(examples, form)
        rex, exc, um = self.failing(examples, form, opts)
        R.ev()
        kept = M.kept_examples(supplied, bool(opts.get('strip')),
                               bool(opts.get('remove_empties')))
        if kept:
            R.nontrivial = True
        if exc is None:
            R.out('%s%d/%d:%s' % ('V' if um else '', len(rex), len(kept),
                                  regex_kinds(rex)))
            if not um:
                return
        else:
            R.out('raises:%s' % type(exc).__name__)

        def fails(s2, o2):
            r2, e2, u2 = self.failing(s2, form, o2)
            R.ev(1, checked=0)
            return e2 is not None or bool(u2)

        cause = self.diagnose(supplied, opts, fails, um)
        detail = {'examples': supplied, 'form': form,
                  'options': A.opt_key(opts)}
        if exc is not None:
            detail['exception'] = repr(exc)[:300]
            R.viol('raises:%s:%s' % (type(exc).__name__, cause),
                   'extract-returns', detail, sub)
            return
        detail['returned'] = rex
        detail['unmatched'] = um
        R.viol(cause if not cause.startswith('opts=')
               else 'unmatched:' + cause,
               'every-kept-example-matched', detail, sub)

    def run_unsampled(self, R, case):
        ex = case['ex']
        for (form, opts) in self.form_points(case['pts'], case['forms']):
            self.check_one(R, ex, form, opts,
                           {'form': form, 'options': A.opt_key(opts)})

    # ----------------------------------------------------------- E3
    def judge_history(self, R, case, seq, examples, opts, res, fresh):
        (rex, _, exc) = res
        (rex0, _, exc0) = fresh
        R.nontrivial = True
        sub = {'sequence': [list(x) for x in seq]}
        detail = {'history': self.describe_history(case, seq),
                  'fresh_state_result': rex0}
        if exc is not None:
            R.out('hist-raises:%s' % type(exc).__name__)
            R.viol('%sraises:%s:el=%s'
                   % ('history-dependent:' if exc0 is None else '',
                      type(exc).__name__, opts.get('extra_letters')),
                   'extract-returns',
                   dict(detail, exception=repr(exc)[:300]), sub)
            return
        um = M.unmatched(rex, examples)
        if um:
            R.out('hist%d:V' % len(seq))
            ok_fresh = exc0 is None and not M.unmatched(rex0, examples)
            if ok_fresh:
                sig = ('history-dependent:unmatched:el=%s'
                       % opts.get('extra_letters'))
            else:
                def fails(s2, o2):
                    self.fresh_state()
                    r2, e2, u2 = self.failing(s2, 'list', o2)
                    R.ev(1, checked=0)
                    return e2 is not None or bool(u2)
                sig = self.diagnose(examples, opts, fails, um)
                if sig.startswith('opts='):
                    sig = 'unmatched:' + sig
            R.viol(sig, 'every-kept-example-matched',
                   dict(detail, returned=rex, unmatched=um), sub)
        elif exc0 is None and rex != rex0:
            R.unspec += 1
            R.out('hist%d:differs-from-fresh' % len(seq))
        else:
            R.out('hist%d:%d/%d' % (len(seq), len(rex), len(examples)))

    # ----------------------------------------------------------- E2
    def run_sampled(self, R, case):
        ex, size, seed = self.case_examples(case), case['size'], case['seed']
        form, order = case['form'], case['order']
        opts = dict(A.DEFAULT_OPTIONS)
        opts.update(case.get('opts') or {})
        supplied = self.supplied(ex, form)
        kept = M.kept_examples(supplied)
        R.nontrivial = bool(kept)
        baseline = {}

        def run(ch):
            fake = S.FakeRandom(ch, order=order)
            rex, x, exc = self.call(ex, form, opts, size=size, seed=seed,
                                    fake=fake, as_object=True)
            working = None
            if x is not None:
                try:
                    working = list(x.examples.strings)
                except Exception:       # noqa - only used for the signature
                    working = None
            return rex, working, exc, fake.n_samples

        nexec = 0
        for (choices, (rex, working, exc, nsamp)) in explore_choices(run):
            nexec += 1
            R.ev()
            sub = {'choices': choices}
            if exc is not None:
                R.out('raises:%s' % type(exc).__name__)
                R.viol('sampled-raises:%s' % type(exc).__name__,
                       'extract-returns',
                       {'examples': supplied, 'size': size, 'seed': seed,
                        'sample_choices': choices,
                        'exception': repr(exc)[:300]}, sub)
                continue
            um = M.unmatched(rex, supplied)
            R.out('%ssampled%d:%d/%d' % ('V' if um else '', nsamp, len(rex),
                                         len(kept)))
            if not um:
                continue
            if 'fails' not in baseline:
                # the same input without sampling
                r0, e0, u0 = self.failing(ex, form, opts)
                R.ev(1, checked=0)
                baseline['fails'] = e0 is not None or bool(u0)
            if baseline['fails']:
                # not specific to sampling: diagnose on the unsampled route
                def fails(s2, o2):
                    r2, e2, u2 = self.failing(s2, form, o2)
                    R.ev(1, checked=0)
                    return e2 is not None or bool(u2)
                sig = self.diagnose(supplied, opts, fails, um)
                if sig.startswith('opts='):
                    sig = 'unmatched:' + sig
            elif nsamp == 0:
                sig = 'size-unsampled:unmatched'
            elif working is None:
                sig = 'sampled:unmatched'
            elif all(s in working for s in um):
                sig = 'sampled-last-attempt'
            else:
                # an unmatched example never reached the working set: the
                # loop's own re-check accepted it.  Why?
                sig = ('sampled-not-considered'
                       + self.sampled_recheck_cause(rex, um, working))
            R.viol(sig, 'every-kept-example-matched',
                   {'examples': supplied, 'form': form, 'size': size,
                    'seed': seed, 'sample_choices': choices,
                    'sample_order': order, 'returned': rex, 'unmatched': um,
                    'final_working_set': working}, sub)
        R.states = nexec


    # ------------------------------------------------- real random module
    def run_real(self, R, case):
        """The sampled path on the REAL random module (seeds matter here):
        one extract() from a fixed global generator pre-state."""
        ex, size, seed = self.case_examples(case), case['size'], case['seed']
        form = case['form']
        opts = dict(A.DEFAULT_OPTIONS)
        opts.update(case.get('opts') or {})
        supplied = self.supplied(ex, form)
        kept = M.kept_examples(supplied)
        R.nontrivial = bool(kept)
        with S.real_random(case['real']):
            before = S.real_state_token()
            rex, x, exc = self.call(ex, form, opts, size=size, seed=seed,
                                    as_object=True, real=True)
            moved = S.real_state_token() != before
        R.ev()
        detail = {'examples': supplied, 'form': form, 'size': size,
                  'seed': seed, 'global_prestate': case['real'],
                  'options': A.opt_key(opts)}
        if exc is not None:
            R.out('real-raises:%s' % type(exc).__name__)
            R.viol('real-random-raises:%s' % type(exc).__name__,
                   'extract-returns',
                   dict(detail, exception=repr(exc)[:300]))
            return
        um = M.unmatched(rex, supplied)
        R.out('%sreal%s:%d/%d' % ('V' if um else '', '-moved' if moved else '',
                                  len(rex), len(kept)))
        if not um:
            return
        r0, e0, u0 = self.failing(ex, form, opts)
        R.ev(1, checked=0)
        if e0 is not None or u0:
            def fails(s2, o2):
                r2, e2, u2 = self.failing(s2, form, o2)
                R.ev(1, checked=0)
                return e2 is not None or bool(u2)
            sig = self.diagnose(supplied, opts, fails, um)
            if sig.startswith('opts='):
                sig = 'unmatched:' + sig
        else:
            sig = 'real-random-sampled:unmatched:seed=%s:form=%s' % (
                'int' if seed is not None else 'None', form)
        R.viol(sig, 'every-kept-example-matched',
               dict(detail, returned=rex, unmatched=um))

    def sampled_recheck_cause(self, rex, um, working):
        """Why did the loop's own re-check accept an example that the
        returned expressions do not match in full?  Two known ways, tested
        directly with python re on the first such example:
          :trailing-newline       some returned expression matches it with
                                  re.match ('$' before the final newline) but
                                  not in full
          :nonascii-digit:U+XXXX  some returned expression matches it in full
                                  once [0-9] is read as \\d (the re-check used
                                  the perl form, the output is portable)
        '' otherwise."""
        for s in um:
            if working is not None and s in working:
                continue
            for r in rex:
                c = M.compile_rex(r)
                if c is not None and s.endswith('\n') and c.match(s) \
                        and not M.fullmatch(r, s):
                    return ':trailing-newline'
            nad = [ch for ch in s if ch.isdigit() and not ('0' <= ch <= '9')]
            if nad:
                for r in rex:
                    if '[0-9]' in r and M.fullmatch(r.replace('[0-9]', '\\d'),
                                                    s):
                        return ':nonascii-digit:U+%04X' % ord(nad[0])
            return ''
        return ''


CHECK = C03()
