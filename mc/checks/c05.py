"""
C05 - DataFrame comparison passes exactly when the checked structure and
values agree.

E1 in deviation layers.  A case is (entry point, base frame, list of
deviations, set of option points); run_case builds the reference frame, the
actual frame (= copy of the reference + the deviations), and for every option
point runs the REAL comparison through the entry point and compares

    pass / assertion failure (own exception type, with a message) / internal
    error (any other exception)

with the three-valued verdict of the independent model mc/models/frame_spec.py
(must pass / must fail / unspecified).  For the file entry points the
reference (and for the file-vs-file entry points the actual) frame is written
by the harness and the model is given what pandas reads back from the file, so
dtype changes made by the file format are not attributed to tdda.

E3 history layers: sequences of comparisons on ONE ReferenceTest /
PandasComparison object (state = the history, rebuilt from a fresh object each
time); every verdict must equal the model's and that of the same comparison on
a fresh object, i.e. nothing given to one call may leak into a later one.

Round 3: `L1-type-pairs` (every pair of dtype points in BOTH directions on
columns whose values agree or are unchecked, under every type_matching level,
with the symmetry clause); `H2-shared-frames` (two comparisons that are given
the SAME DataFrame objects); and, on every case of every layer, the clause
"a comparison does not change the caller's frames" (columns, dtypes, rows and
values; the row ORDER only when no sortby was given - in-place sorting of the
caller's frames is a declared gray zone).
"""
import contextlib
import io
import itertools
import os
import shutil
import tempfile
import traceback
import warnings

from mc.engine import Check, Res
from mc import c05_alphabet as A
from mc.models import frame_spec as M


class AssertionFailure(Exception):
    """Raised by the harness's assert_fn: the only acceptable way to fail."""


def _assert_fn(ok, msg=None):
    if not ok:
        raise AssertionFailure(msg)


# ------------------------------------------------------------ option points

def opt_key(o):
    return ','.join('%s=%s' % (d, o[d]) for d in A.DIMS
                    if o[d] != A.DEFAULT_OPTS[d]) or 'default'


def dedupe(points):
    seen, out = set(), []
    for o in points:
        k = opt_key(o)
        if k not in seen:
            seen.add(k)
            out.append(o)
    return out


def option_points(case, tier):
    """The option points a case loops over (deterministic)."""
    values = A.DIM_VALUES_THOROUGH if tier == 'thorough' else A.DIM_VALUES
    e = case['e']
    kind = case['os']
    if kind == 'prod':
        # full product of the remaining dimensions around fixed cd/ct/co
        fix = case['fix']
        dims = ['sort', 'cond', 'prec', 'tm'] if e == 'mem' else \
            ['cx', 'sort', 'cond', 'tm']
        pts = [dict(o, **fix) for o in A.option_product(dims, values)]
    elif kind == 'xprod':
        # every combination of the per-kind column selections (so that any
        # mix-up between two pass-through keywords changes some verdict) +
        # star over the remaining dimensions
        dims = ['cd', 'ct', 'co'] + (['cx'] if ENTRY[e]['cx'] else [])
        pts = list(A.option_product(dims, values)) + \
            list(A.option_star(['sort', 'cond', 'prec', 'tm'], values))
    elif kind == 'neut':
        # full product of the menus of the options that neutralise the
        # deviations of the case
        menu = case['menu']
        dims = [d for d in A.DIMS if d in menu]
        pts = [A.opts_with(**dict(zip(dims, combo))) for combo in
               itertools.product(*[menu[d] for d in dims])]
    elif kind == 'default':
        pts = [dict(A.DEFAULT_OPTS)]
    elif kind == 'star':
        pts = list(A.option_star(values=values))
    elif kind in ('rel', 'rel3'):
        # star + full product of the dimensions relevant to the deviations
        rel = []
        for d in case['d']:
            for x in A.relevant_dims(d):
                if x not in rel:
                    rel.append(x)
        n = 3 if kind == 'rel3' else 2
        pts = list(A.option_star(values=values)) + \
            list(A.option_product(rel[:n], values))
    elif kind == 'relonly':
        rel = []
        for d in case['d']:
            for x in A.relevant_dims(d):
                if x not in rel:
                    rel.append(x)
        # (absent / renamed column: the three per-kind selections + sortby)
        n = 4 if any(d[0] in ('delcol', 'rename') for d in case['d']) else 3
        pts = [dict(A.DEFAULT_OPTS)] + list(A.option_star(rel[:n], values))
    elif kind == 'pairs':
        pts = list(A.option_star(values=values)) + \
            list(A.option_pairs(values=values))
    else:
        raise ValueError(kind)
    out = []
    for o in pts:
        o = dict(o)
        if not ENTRY[e]['cx']:
            o['cx'] = 'none'       # only check_dataframe takes check_extra_cols
        if not ENTRY[e]['tm']:
            o['tm'] = None         # file-vs-file entry points: no type_matching
        out.append(o)
    return dedupe(out)


# ------------------------------------------------------------------- layers

CSV_LABELS = ('int64', 'float64', 'str')

# entry point -> file format of the reference, is the actual frame read from a
# file too, does the entry point take type_matching / check_extra_cols
ENTRY = {
    'mem': {'fmt': None, 'afile': False, 'tm': True, 'cx': False},
    'chk': {'fmt': None, 'afile': False, 'tm': True, 'cx': True},
    'pq': {'fmt': 'parquet', 'afile': False, 'tm': True, 'cx': False},
    'csv': {'fmt': 'csv', 'afile': False, 'tm': True, 'cx': False},
    'disk': {'fmt': 'parquet', 'afile': True, 'tm': False, 'cx': False},
    'disks': {'fmt': 'parquet', 'afile': True, 'tm': False, 'cx': False},
    'ser': {'fmt': 'parquet', 'afile': True, 'tm': False, 'cx': False},
    'dcsv': {'fmt': 'csv', 'afile': True, 'tm': False, 'cx': False},
    'csvf': {'fmt': 'csv', 'afile': True, 'tm': False, 'cx': False},
    'csvfs': {'fmt': 'csv', 'afile': True, 'tm': False, 'cx': False},
}
ENTRY_NAMES = {
    'mem': 'assertDataFramesEqual',
    'chk': 'PandasComparison.check_dataframe',
    'pq': 'assertDataFrameCorrect(parquet reference)',
    'csv': 'assertDataFrameCorrect(CSV reference)',
    'disk': 'assertOnDiskDataFrameCorrect(parquet, parquet)',
    'disks': 'assertOnDiskDataFramesCorrect([parquet..], [parquet..])',
    'ser': 'PandasComparison.check_serialized_dataframe(parquet, parquet)',
    'dcsv': 'assertOnDiskDataFrameCorrect(CSV, CSV)',
    'csvf': 'assertCSVFileCorrect(CSV, CSV)',
    'csvfs': 'assertCSVFilesCorrect([CSV..], [CSV..])',
}
PARQUET_ENTRIES = ('pq', 'disk', 'disks', 'ser')
CSV_ENTRIES = ('csv', 'dcsv', 'csvf', 'csvfs')


def csv_ok(frame):
    return all(c[1] in CSV_LABELS and '' not in c[2] for c in frame)


def gen_cases(tier, layer):
    th = tier == 'thorough'
    if layer == 'L0-copy-options':
        triples = list(A.COVER_TRIPLES)
        if th:
            triples += [t for t in list(A.all_triples())[5::63]
                        if t not in triples]
        for fr in A.triple_frames(3 if th else 2, triples):
            for cd in A.FLAGS:
                for ct in A.FLAGS:
                    for co in A.FLAGS:
                        fix = {'cd': cd, 'ct': ct, 'co': co}
                        yield {'e': 'mem', 'f': fr, 'd': [], 'os': 'prod',
                               'fix': fix}
                        yield {'e': 'chk', 'f': fr, 'd': [], 'os': 'prod',
                               'fix': fix}
    elif layer == 'L0-copy-frames':
        nv = 3 if th else 2
        for fr in A.single_frames(3, nv):
            for e in ('mem', 'chk'):
                yield {'e': e, 'f': fr, 'd': [], 'os': 'star'}
            if len(fr[0][2]) <= (3 if th else 2):
                for e in ('pq', 'disk'):
                    yield {'e': e, 'f': fr, 'd': [], 'os': 'star'}
                if csv_ok(fr):
                    yield {'e': 'csv', 'f': fr, 'd': [], 'os': 'star'}
        shifts = ((0, 1), (1, 0), (2, 2)) if th else ((0, 1),)
        for fr in A.pair_frames(3 if th else 2, shifts):
            yield {'e': 'mem', 'f': fr, 'd': [], 'os': 'pairs' if th
                   else 'star'}
            yield {'e': 'chk', 'f': fr, 'd': [], 'os': 'star'}
            yield {'e': 'pq', 'f': fr, 'd': [], 'os': 'default'}
            yield {'e': 'disk', 'f': fr, 'd': [], 'os': 'default'}
            if csv_ok(fr):
                yield {'e': 'csv', 'f': fr, 'd': [], 'os': 'default'}
    elif layer == 'L1-one-deviation':
        # bulk through check_dataframe (no temporaries written: fast), every
        # (frame, deviation) also through assertDataFramesEqual at the
        # default option point (which writes the failure temporaries)
        nv = 3 if th else 2
        for fr in A.single_frames(3 if th else 2, nv):
            deep = th and len(fr[0][2]) <= 2
            for d in A.single_devs(fr, nv):
                yield {'e': 'chk', 'f': fr, 'd': [d],
                       'os': 'rel3' if deep else 'rel'}
                yield {'e': 'mem', 'f': fr, 'd': [d],
                       'os': 'relonly' if th else 'default'}
        shifts = ((0, 1), (1, 2)) if th else ((0, 1),)
        for fr in A.pair_frames(3 if th else 2, shifts):
            rows = None if th else (0,)
            devs = list(A.cell_devs(fr, 2, deltas=False, rows=rows)) + \
                list(A.structural_devs(fr))
            for d in devs:
                yield {'e': 'chk', 'f': fr, 'd': [d],
                       'os': 'rel' if th else 'relonly'}
                yield {'e': 'mem', 'f': fr, 'd': [d], 'os': 'default'}
        for fr in A.triple_frames(2, A.COVER_TRIPLES):
            for d in A.structural_devs(fr):
                if d[0] in ('swap', 'delcol', 'rename', 'extracol'):
                    # absent / renamed column: full product of the three
                    # per-kind selections (excluded from some kinds of check
                    # and not from others)
                    deep = th or d[0] in ('delcol', 'rename')
                    yield {'e': 'chk', 'f': fr, 'd': [d],
                           'os': 'rel3' if deep else 'rel'}
                    yield {'e': 'mem', 'f': fr, 'd': [d], 'os': 'default'}
    elif layer == 'L1-files':
        nv = 2
        for fr in A.single_frames(2 if th else 1, nv):
            for d in A.single_devs(fr, nv, deltas=th):
                for e in ('pq', 'disk'):
                    yield {'e': e, 'f': fr, 'd': [d],
                           'os': 'relonly' if th or e == 'pq' else 'default'}
                if csv_ok(fr):
                    yield {'e': 'csv', 'f': fr, 'd': [d], 'os': 'relonly'}
        for fr in A.pair_frames(2):
            if not th and fr[0][1] > fr[1][1]:
                continue            # quick: unordered family pairs
            devs = list(A.cell_devs(fr, 2, deltas=False, rows=(1,))) + \
                [d for d in A.structural_devs(fr)
                 if d[0] in ('swap', 'delcol', 'droprow', 'extracol')]
            for d in devs:
                yield {'e': 'pq', 'f': fr, 'd': [d], 'os': 'default'}
                if th:
                    yield {'e': 'disk', 'f': fr, 'd': [d], 'os': 'default'}
                if csv_ok(fr):
                    yield {'e': 'csv', 'f': fr, 'd': [d], 'os': 'default'}
    elif layer == 'L2-two-deviations':
        nv = 2
        for fr in A.single_frames(2, nv):
            devs = list(A.single_devs(fr, nv, deltas=False))
            for d1 in devs:
                f1 = A.apply_dev(fr, d1)
                if f1 is None:
                    continue
                for d2 in A.single_devs(f1, nv, deltas=False):
                    if d2[0] == 'extracol' and d1[0] == 'extracol':
                        continue
                    yield {'e': 'chk', 'f': fr, 'd': [d1, d2],
                           'os': 'relonly'}
        for fr in A.pair_frames(2):
            devs = list(A.cell_devs(fr, 2, deltas=False, rows=(0,))) + \
                list(A.structural_devs(fr))
            for i, d1 in enumerate(devs):
                f1 = A.apply_dev(fr, d1)
                if f1 is None:
                    continue
                for d2 in devs[i + 1:]:
                    if d2[0] == 'extracol' and d1[0] == 'extracol':
                        continue
                    yield {'e': 'chk', 'f': fr, 'd': [d1, d2],
                           'os': 'default'}
                    yield {'e': 'mem', 'f': fr, 'd': [d1, d2],
                           'os': 'default'}
    elif layer == 'L1-xfiles':
        # structural deviations (+ one cell per column) x every combination
        # of check_data / check_types / check_order (/ check_extra_cols)
        # through every file-based entry point and, for comparison, the two
        # in-memory ones
        def oset(d):
            # row deviations do not depend on the column selections
            if d[0] == 'cell' and isinstance(d[3], list):
                return 'rel'        # float delta: star + cd x precision
            return 'rel' if d[0] in ('droprow', 'addrow', 'revrows') \
                else 'xprod'
        def keep(d):
            # quick: one representative of each symmetric family of
            # structural deviations (thorough: all of them)
            if th:
                return True
            if d[0] in ('rename', 'delcol'):
                return d[1] == 1
            if d[0] == 'swap':
                return (d[1], d[2]) != (0, 2)
            if d[0] == 'extracol':
                return d[1] == 'end'
            return True
        fr = A.csv_triple()
        for d in A.structural_plus_cells(fr, 4 if th else 1):
            if not keep(d):
                continue
            for e in ('mem', 'chk') + CSV_ENTRIES + PARQUET_ENTRIES:
                yield {'e': e, 'f': fr, 'd': [d], 'os': oset(d)}
        triples = A.COVER_TRIPLES if th else A.COVER_TRIPLES[2:3]
        for fr in A.triple_frames(2, triples):
            for d in A.structural_plus_cells(fr, 4 if th else 1):
                if not keep(d):
                    continue
                for e in (('mem', 'chk') if th else ()) + PARQUET_ENTRIES:
                    yield {'e': e, 'f': fr, 'd': [d], 'os': oset(d)}
    elif layer == 'L2-option-pairs':
        # two (three) deviations, each neutralised by a different option:
        # the comparison passes iff every one of those options is honoured
        entries = ('chk', 'mem', 'disk', 'pq', 'dcsv')
        for (refname, devs, menu) in A.neutral_combos(2):
            for e in entries:
                yield {'e': e, 'f': A.PAIR_REFS[refname], 'd': devs,
                       'os': 'neut', 'menu': menu}
        for (refname, devs, menu) in A.neutral_combos(3):
            for e in (entries if th else ('chk',)):
                yield {'e': e, 'f': A.PAIR_REFS[refname], 'd': devs,
                       'os': 'neut', 'menu': menu}
    elif layer == 'L1-type-pairs':
        for (x, y) in A.type_pairs():
            for var in A.TP_VARIANTS:
                if A.tp_frames(x, y, var) is None:
                    continue
                yield {'k': 'tpair', 'e': 'chk', 'x': x, 'y': y, 'var': var}
                if var != 'empty':
                    yield {'k': 'tpair', 'e': 'mem', 'x': x, 'y': y,
                           'var': var}
    elif layer == 'H2-shared-frames':
        for pair in A.SHARED_PAIR_ORDER:
            for i in range(len(A.shared_menu(pair))):
                yield {'k': 'shared', 'pair': pair, 'first': i}
    elif layer == 'H2-histories':
        for i in range(len(A.hist_menu('full'))):
            yield {'k': 'hist', 'menu': 'full', 'prefix': [i]}
    elif layer == 'H3-histories':
        n = len(A.hist_menu('reduced'))
        for i in range(n):
            for j in range(n):
                yield {'k': 'hist', 'menu': 'reduced', 'prefix': [i, j]}
    else:
        raise ValueError(layer)


class C05(Check):
    pid = 'C05'
    title = ('DataFrame comparison passes exactly when the checked structure '
             'and values agree')
    technique = ('bounded exhaustive enumeration in deviation layers (copy, '
                 'one deviation, two deviations) of small frames x option '
                 'points x entry points on the real comparison, against an '
                 'independent three-valued frame model')
    rule = ('cases = (entry point in {assertDataFramesEqual, '
            'PandasComparison.check_dataframe, assertDataFrameCorrect vs '
            'parquet, vs CSV, assertOnDiskDataFrameCorrect (parquet and CSV), '
            'assertOnDiskDataFramesCorrect, assertCSVFileCorrect, '
            'assertCSVFilesCorrect, check_serialized_dataframe}, base frame of 1-3 '
            'columns over 10 dtype families with 0-3 rows and nulls anywhere, '
            '0/1/2 deviations from {cell changed / to null / from null / '
            'float delta of 10, 1.6 or 0.1 rounding units, rename, dtype change, '
            'column swap, row dropped/added, rows reversed, extra column, '
            'column removed}), '
            'each evaluated at a set of option points (full product of '
            'check_data/check_types/check_order/check_extra_cols x sortby x '
            'condition x precision x type_matching on the copy layer; star '
            'plus product of the relevant dimensions on deviation layers; '
            'check_dataframe is called with create_temporaries=False, the '
            'assert* entry points write their failure temporaries into the '
            'sandbox; L1-xfiles: every structural deviation x every '
            'combination of check_data/check_types/check_order(/check_extra_'
            'cols) in {None, False, list, function} through all ten entry '
            'points, so that a mix-up of two pass-through keywords changes a '
            'verdict; L2-option-pairs: every pair / triple of deviations '
            'that one option each neutralises (reversed / rotated rows <-> '
            'sortby; rows excluded by the condition added at the front, end '
            'or middle of one side only <-> condition; float delta <-> '
            'precision; dtype <-> check_types / type_matching; swap <-> '
            'check_order; extra column <-> check_extra_cols; cell <-> '
            'check_data) x the full product of the neutralising menus); '
            'plus E3 histories: every sequence of 2 (thorough also '
            '3) comparisons from a menu of 76 (44) ops on ONE ReferenceTest / '
            'PandasComparison object, rebuilt from a fresh object per '
            'history, each verdict compared with the model and with the same '
            'comparison on a fresh object; '
            'L1-type-pairs: every unordered pair of 18 dtype points (numpy '
            'and nullable int / float / bool, object holding text / ints / '
            'floats / bools, str, string, category, datetime ns / us) on '
            'columns that are empty, all null, or hold agreeing (else '
            'unchecked) values, evaluated in BOTH directions at every '
            'type_matching level x check_types form x check_data on/off: '
            'model verdict per direction, and where the model leaves a '
            'direction open the two directions must agree (same column '
            'names on both sides, so every condition of the statement is a '
            'symmetric relation); '
            'H2-shared-frames: every sequence of two comparisons from 4 entry '
            'points x 8 option points (conditions all / value-based / '
            'positional / none, sortby, check_data off) that are given the '
            'SAME DataFrame objects (6 frame pairs, one of them a single '
            'object as actual and expected): verdict = model on the frames '
            'as built = verdict on freshly built frames; '
            'on every comparison of every non-history layer and of '
            'H2-shared-frames the frames that were passed must hold the same '
            'columns, dtypes, rows and values afterwards (rows as a multiset '
            'when sortby was given); '
            'non-trivial = the model gives a definite verdict for at least '
            'one option point and the frames have at least one cell or one '
            'deviation')
    assumptions = [
        'pandas 3.0.6 / pyarrow 25: building frames from specs, reading the '
        'reference file back (pd.read_parquet; pd.read_csv with the '
        'documented loader defaults) and to_parquet/to_csv are trusted',
        'frames <= 3 columns x <= 3 rows (4 after an added row); values from '
        'the family alphabets only; column names a, b, c, q, zz',
        'unspecified (never alarmed): category vs string dtype; '
        'medium/permissive type matching except bit-width changes, int<->float'
        ' and bool/int/float interchange, numeric vs datetime/str/string; '
        'floats within 1% of a rounding tie; precision=None with differences '
        'below 1e-6; bool vs number and other cross-kind value comparisons; '
        'row order among equal sort keys when the key columns differ and '
        'where nulls sort; sortby/condition on a column missing from the '
        'actual frame that is not selected for type or data checks; frames '
        'with no columns',
        'in-place sorting of the caller\'s frames (a permutation of their '
        'rows when sortby is given) is a gray zone: tolerated by the '
        'frames-unchanged clause, and in H2-shared-frames the verdicts that '
        'follow a comparison with sortby are not judged; any other change '
        'of a frame that was passed (rows lost, values, dtypes, columns) is '
        'a violation because it changes the verdict of a later comparison '
        'of the same objects; index labels are not looked at',
        'type matching: besides the clear-cut pairs, a numeric / boolean '
        'column (numpy or nullable) never matches a str / string / datetime '
        'column at any level; every other cross-family pair is decided only '
        'through the symmetry clause',
        'a reference column that the actual frame lacks and that is selected '
        'for neither the type nor the data check does not make the '
        'comparison fail, whether or not check_order names it (documented: '
        'check_order restricts the fields whose RELATIVE order is compared)',
        'CSV references only for int64/float64/str frames without empty '
        'strings',
        'histories: the verdict of a comparison is taken to be a function of '
        'the two frames and the options of that call only (differential '
        'oracle against a fresh ReferenceTest object); precision omitted = '
        'documented default, decided by the model only where rounding to 6 '
        'places already separates the values',
    ]

    def layers(self, tier):
        L = [('L0-copy-options', 'copy of cover frames under the full product '
              'of options (assertDataFramesEqual and check_dataframe)'),
             ('L0-copy-frames', 'copy of every base frame, star of options, '
              'all five entry points'),
             ('L1-one-deviation', 'one deviation, in-memory entry points'),
             ('L1-files', 'one deviation, parquet / CSV / on-disk entry '
              'points')]
        L.append(('L1-xfiles', 'one structural deviation x every combination '
                  'of the per-kind column selections, through all ten entry '
                  'points (eight of them file based)'))
        L.append(('L2-option-pairs', 'two / three deviations each '
                  'neutralised by a different option (sortby, value-based '
                  'condition with excluded rows on one side only, precision, '
                  'check_* selections, type_matching): full product of the '
                  'neutralising menus; passes iff every option is honoured'))
        L.append(('L1-type-pairs', 'every pair of dtype points (18: numpy / '
                  'nullable int, float, bool; object holding text, ints, '
                  'floats, bools; str, string, category; datetime ns / us) as '
                  '(actual, expected) AND (expected, actual), on columns '
                  'that are empty, all null, or hold agreeing / unchecked '
                  'values, x every type_matching level x every check_types '
                  'form x check_data on / off: model verdict in each '
                  'direction + the two directions must agree'))
        L.append(('H2-histories', 'E3: every sequence of two comparisons from '
                  'the history menu on one ReferenceTest / PandasComparison '
                  'object; each verdict = model = verdict on a fresh object'))
        L.append(('H2-shared-frames', 'E3: every sequence of two comparisons '
                  '(4 entry points x 8 option points incl. four conditions '
                  'and sortby) that are given the SAME DataFrame objects, '
                  'incl. one object as both actual and expected: each '
                  'verdict = model on the frames as the caller built them, '
                  'and the frames are unchanged after every comparison'))
        if tier == 'thorough':
            L.append(('L2-two-deviations', 'two deviations, in-memory entry '
                      'points'))
            L.append(('H3-histories', 'E3: every sequence of three '
                      'comparisons from the reduced history menu'))
        return L

    def cases(self, tier, layer):
        return gen_cases(tier, layer)

    def extra_coverage(self):
        return {'deviation_bound': {'quick': 1, 'thorough': 2},
                'history_depth': {'quick': 2, 'thorough': 3},
                'history_menu_ops': {'full': len(A.hist_menu('full')),
                                     'reduced': len(A.hist_menu('reduced'))},
                'type_points': list(A.TYPE_POINTS),
                'shared_frame_ops': len(A.shared_menu('copy')),
                'shared_frame_pairs': list(A.SHARED_PAIR_ORDER),
                'entry_points': [ENTRY_NAMES[e] for e in sorted(ENTRY)]}

    # ------------------------------------------------------------- worker

    def setup_worker(self, tier):
        warnings.filterwarnings('ignore')
        import numpy as np
        import pandas as pd
        from tdda.referencetest.referencetest import ReferenceTest
        self.tier = tier
        self.np, self.pd = np, pd
        self.RT = ReferenceTest
        self.sandbox = tempfile.mkdtemp(prefix='mc_c05_', dir='/var/tmp')
        self.tmpdir = os.path.join(self.sandbox, 'tmp')
        os.mkdir(self.tmpdir)
        self.saved_tempdir = tempfile.tempdir
        tempfile.tempdir = self.tmpdir
        ReferenceTest.regenerate.clear()
        self.rt = self.new_rt()
        self.menus = {'full': A.hist_menu('full'),
                      'reduced': A.hist_menu('reduced')}
        self.hist_cache = {}
        import mc.engine as engine
        self.src = os.path.join(os.path.abspath(engine.TDDA_SRC), 'tdda')

    def teardown_worker(self):
        sb = getattr(self, 'sandbox', None)
        if sb and os.path.isdir(sb):
            shutil.rmtree(sb, ignore_errors=True)
        if hasattr(self, 'saved_tempdir'):
            tempfile.tempdir = self.saved_tempdir
        self.sandbox = None

    # ------------------------------------------------------ frames <-> specs

    def build_col(self, col):
        np, pd = self.np, self.pd
        label, vals = col[1], col[2]
        if label in ('int64', 'int32', 'bool'):
            return pd.Series(np.array(vals, dtype=label))
        if label in ('float64', 'float32'):
            return pd.Series(np.array(
                [np.nan if v is None else v for v in vals], dtype=label))
        if label == 'object':
            return pd.Series(list(vals), dtype=object)
        if label in ('str', 'string', 'Int64', 'Int32', 'Float64', 'boolean'):
            return pd.Series(pd.array(list(vals), dtype=label))
        if label == 'category':
            return pd.Series(pd.Categorical(list(vals)))
        if label.startswith('datetime64'):
            return pd.Series(np.array(vals, dtype=label))
        raise ValueError(label)

    def build(self, spec):
        pd = self.pd
        n = len(spec[0][2]) if spec else 0
        df = pd.DataFrame(index=pd.RangeIndex(n))
        for col in spec:
            df[col[0]] = self.build_col(col)
        return df

    def spec_of(self, df):
        """Plain spec of a real frame (None if outside the model's labels)."""
        pd = self.pd
        out = []
        for name in df.columns:
            s = df[name]
            label = str(s.dtype)
            if label not in A.KIND or not isinstance(name, str):
                return None
            vals = []
            kinds = set()
            for v in s.tolist():
                if v is None or v is pd.NA or v is pd.NaT or \
                        (isinstance(v, float) and v != v):
                    vals.append(None)
                    continue
                if isinstance(v, pd.Timestamp):
                    v = v.strftime('%Y-%m-%dT%H:%M:%S')
                    kinds.add('datetime')
                elif hasattr(v, 'item'):
                    v = v.item()
                if isinstance(v, bool):
                    kinds.add('bool')
                elif isinstance(v, int):
                    kinds.add('int')
                elif isinstance(v, float):
                    kinds.add('float')
                elif isinstance(v, str):
                    kinds.add('text')
                else:
                    return None
                vals.append(v)
            col = [name, label, vals]
            if label == 'object':
                if len(kinds) > 1:
                    return None
                k = kinds.pop() if kinds else 'text'
                if k != 'text':
                    col.append(k)
            out.append(col)
        return out

    # ------------------------------------------------------------ real call

    def flag(self, code, names):
        if code == 'none':
            return None
        if code == 'false':
            return False
        if code == 'list':
            return A.pick('list', names)
        return lambda df: A.pick('fn', list(df))

    def kwargs(self, opts, rnames):
        pd, np = self.pd, self.np
        kw = {'check_data': self.flag(opts['cd'], rnames),
              'check_types': self.flag(opts['ct'], rnames),
              'check_order': self.flag(opts['co'], rnames),
              'precision': opts['prec']}
        s = opts['sort']
        if s == 'all':
            kw['sortby'] = True
        elif s is not None:
            kw['sortby'] = M.sort_columns(s, rnames)
        c = opts['cond']
        if c == 'all':
            kw['condition'] = lambda df: pd.Series(True, index=df.index)
        elif c == 'none':
            kw['condition'] = lambda df: pd.Series(False, index=df.index)
        elif c == 'dropfirst':
            kw['condition'] = lambda df: pd.Series(np.arange(len(df)) > 0,
                                                   index=df.index)
        elif c == 'notnull':
            kw['condition'] = lambda df: df['a'].notnull()
        return kw

    def where(self, exc):
        """Innermost tdda frame on the traceback of exc: function name and a
        fingerprint of the source line (robust to line-number shifts)."""
        fn, line = '?', ''
        for fr in traceback.extract_tb(exc.__traceback__):
            if os.path.abspath(fr.filename).startswith(self.src):
                fn, line = fr.name, fr.line or ''
        fp = ''.join(ch for ch in line if ch.isalnum() or ch in '._')
        return '%s[%s]' % (fn, fp[:40])

    def new_rt(self):
        rt = self.RT(_assert_fn)
        rt.pandas.tmp_dir = self.tmpdir
        rt.pandas.verbose = False
        rt.files.tmp_dir = self.tmpdir
        return rt

    def call(self, entry, adf, rdf, opts, anames, rnames, paths, rt=None):
        fresh_counter = rt is None
        rt = rt or self.rt
        self.RT.regenerate.clear()
        if fresh_counter:
            rt.pandas.tmp_file_counter = 0
        kw = self.kwargs(opts, rnames)
        if ENTRY[entry]['tm']:
            kw['type_matching'] = opts['tm']
        out = io.StringIO()
        try:
            with contextlib.redirect_stdout(out), \
                    contextlib.redirect_stderr(out):
                if entry == 'mem':
                    rt.assertDataFramesEqual(adf, rdf, **kw)
                elif entry == 'chk':
                    r = rt.pandas.check_dataframe(
                        adf, rdf, check_extra_cols=self.flag(opts['cx'],
                                                             anames),
                        create_temporaries=False, **kw)
                    if r.failures:
                        raise AssertionFailure(r.diffs.message())
                elif entry in ('pq', 'csv'):
                    rt.assertDataFrameCorrect(adf, paths['ref'], **kw)
                elif entry in ('disk', 'dcsv'):
                    rt.assertOnDiskDataFrameCorrect(paths['act'],
                                                    paths['ref'], **kw)
                elif entry == 'csvf':
                    rt.assertCSVFileCorrect(paths['act'], paths['ref'], **kw)
                elif entry == 'csvfs':
                    rt.assertCSVFilesCorrect([paths['act'], paths['ref']],
                                             [paths['ref'], paths['ref']],
                                             **kw)
                elif entry == 'disks':
                    rt.assertOnDiskDataFramesCorrect(
                        [paths['ref'], paths['act']],
                        [paths['ref'], paths['ref']], **kw)
                elif entry == 'ser':
                    r = rt.pandas.check_serialized_dataframe(
                        paths['act'], paths['ref'], **kw)
                    (failures, msgs) = r
                    if failures:
                        raise AssertionFailure(msgs.message())
                else:
                    raise ValueError(entry)
            return ('pass', None, None)
        except AssertionFailure as e:
            msg = e.args[0] if e.args else None
            return ('assert', msg, None)
        except Exception as e:
            tb = ''.join(traceback.format_exception(type(e), e,
                                                    e.__traceback__))[-1500:]
            return ('error:%s@%s' % (type(e).__name__, self.where(e)),
                    repr(e)[:300], tb)

    # ------------------------------------------------------- frames for a case

    def write_read(self, df, fmt, path):
        """Write df with the harness's own writer and return what pandas
        reads back (the frame the comparison will really be given)."""
        pd = self.pd
        if fmt == 'parquet':
            df.to_parquet(path)
            return pd.read_parquet(path)
        df.to_csv(path, index=False)
        return pd.read_csv(path, index_col=None, keep_default_na=False,
                           na_values=['', 'NaN', 'NULL'])

    def prepare(self, entry, frame, devs, prefix=''):
        """-> (None, skip tag, is_unspecified) or (dict, None, False)."""
        E = ENTRY[entry]
        fmt = E['fmt']
        ext = '.parquet' if fmt == 'parquet' else '.csv'
        paths = {}
        ref_df = self.build(frame)
        ref_spec = frame
        if fmt:
            paths['ref'] = os.path.join(self.sandbox, prefix + 'ref' + ext)
            ref_df = self.write_read(ref_df, fmt, paths['ref'])
            ref_spec = self.spec_of(ref_df)
        if ref_spec is None:
            return None, 'ref-outside-model', True
        act_spec = ref_spec
        for d in devs:
            act_spec = A.apply_dev(act_spec, d)
            if act_spec is None:
                return None, 'deviation-not-applicable', False
        act_df = self.build(act_spec)
        if E['afile']:
            if not act_spec:
                return None, 'no-columns', False
            paths['act'] = os.path.join(self.sandbox, prefix + 'act' + ext)
            act_df = self.write_read(act_df, fmt, paths['act'])
            act_spec = self.spec_of(act_df)
            if act_spec is None:
                return None, 'actual-outside-model', True
        return ({'ref_spec': ref_spec, 'act_spec': act_spec,
                 'ref_df': ref_df, 'act_df': act_df, 'paths': paths,
                 'anames': [c[0] for c in act_spec],
                 'rnames': [c[0] for c in ref_spec]}, None, False)

    def judge(self, R, entry, P, devs, devk, label, opts, want, why, got,
              msg, tb, sub):
        detail = {'entry': entry, 'reference': P['ref_spec'],
                  'actual': P['act_spec'], 'deviations': devs,
                  'options': opts, 'model': [want, why],
                  'observed': got, 'message': (msg or '')[:400]}
        if got.startswith('error:'):
            detail['traceback'] = tb
            R.viol('internal:%s' % got[6:],
                   'fails-as-assertion-never-internal-error'
                   if want == M.FAIL else 'copy-or-equal-frames-pass',
                   detail, sub)
        elif want == M.FAIL and got == 'pass':
            R.viol('missed:%s:%s:%s' % ('+'.join(why), label, entry),
                   'difference-on-checked-aspect-fails', detail, sub)
        elif want == M.PASS and got == 'assert':
            R.viol('spurious:%s:%s:%s' % (devk, label, entry),
                   'agreeing-on-checked-aspects-passes', detail, sub)
        elif got == 'assert' and not (isinstance(msg, str) and msg.strip()):
            R.viol('no-description:%s:%s' % ('+'.join(why), entry),
                   'failure-carries-description', detail, sub)

    # ------------------------------------------------------------- run_case

    def run_case(self, case):
        if case.get('k') == 'hist':
            return self.run_history_case(case)
        if case.get('k') == 'tpair':
            return self.run_type_pair_case(case)
        if case.get('k') == 'shared':
            return self.run_shared_case(case)
        R = Res()
        entry, frame, devs = case['e'], case['f'], case['d']
        P, skip, unspec = self.prepare(entry, frame, devs)
        if P is None:
            R.unspec += 1 if unspec else 0
            R.out('%s:%s' % (entry, skip))
            return R
        ref_spec, act_spec = P['ref_spec'], P['act_spec']
        anames, rnames = P['anames'], P['rnames']
        devk = '+'.join(A.dev_kind(d) for d in devs) or 'copy'
        touched = []
        for d in devs:
            if d[0] in ('cell', 'rename', 'dtype', 'delcol') and \
                    d[1] < len(frame):
                touched.append(frame[d[1]][1])
        if not touched:
            touched = [ref_spec[0][1]] if len(ref_spec) == 1 else ['*']
        label = '+'.join(touched)
        ncells = sum(len(c[2]) for c in ref_spec)

        for opts in option_points(case, self.tier):
            sub = opt_key(opts)
            if opts['cond'] == 'notnull' and 'a' not in anames:
                # the user's condition function cannot be evaluated
                R.unspec += 1
                R.out('%s:%s:condition-not-evaluable' % (entry, devk))
                continue
            want, why = M.verdict(act_spec, ref_spec, opts)
            a = P['act_df'].copy(deep=True)
            r = P['ref_df'].copy(deep=True)
            got, msg, tb = self.call(entry, a, r, opts, anames, rnames,
                                     P['paths'])
            R.ev()
            R.out('%s:%s:%s[%s]->%s' % (entry, devk, want, '+'.join(why),
                                        got))
            self.unchanged(R, entry, opts, P['act_df'], a, P['ref_df'], r,
                           opts['sort'] is not None, sub)
            if want == M.UNSPEC:
                R.unspec += 1
                continue
            if ncells or devs:
                R.nontrivial = True
            self.judge(R, entry, P, devs, devk, label, opts, want, why, got,
                       msg, tb, sub)
        return R

    # ------------------------------------- the caller's frames are not changed

    def frame_change(self, orig, now, permuted_ok):
        """None, or what a comparison changed in a frame it was given
        (index labels are not looked at; the row order only when the call
        was not asked to sort)."""
        if now is orig:
            return None
        if not permuted_ok and now.equals(orig):
            return None
        if list(now.columns) != list(orig.columns):
            return 'columns'
        if [str(t) for t in now.dtypes] != [str(t) for t in orig.dtypes]:
            return 'dtypes'
        if len(now) != len(orig):
            return 'rows-lost' if len(now) < len(orig) else 'rows-added'
        if not permuted_ok:
            for c in list(orig.columns):
                if not now[c].array.equals(orig[c].array):
                    return 'values-or-row-order'
            return None
        so, sn = self.spec_of(orig), self.spec_of(now)
        if so is None or sn is None:
            return None
        ro = sorted(zip(*[c[2] for c in so]), key=repr)
        rn = sorted(zip(*[c[2] for c in sn]), key=repr)
        return None if ro == rn else 'values'

    def unchanged(self, R, entry, opts, a0, a1, r0, r1, permuted_ok, sub):
        """Clause: a comparison leaves the frames it was given as they were
        (otherwise the verdict of a later comparison of the same objects is
        no longer that of the frames the caller built).  a0 / r0 = pristine
        copies, a1 / r1 = the objects that were passed.  -> True if changed."""
        E = ENTRY[entry]
        sides = []
        if not E['afile']:
            sides.append(('actual', a0, a1))
        if E['fmt'] is None:
            sides.append(('expected', r0, r1))
        changed = False
        for (side, f0, f1) in sides:
            ch = self.frame_change(f0, f1, permuted_ok)
            if ch is None:
                continue
            changed = True
            which = '+'.join(d for d in ('sort', 'cond')
                             if opts[d] is not None) or 'no-sort-no-condition'
            R.viol('caller-frame-modified:%s:%s' % (ch, which),
                   'comparison-does-not-change-the-callers-frames',
                   {'entry': entry, 'side': side, 'options': opts,
                    'change': ch, 'before': self.spec_of(f0),
                    'after': self.spec_of(f1)}, sub)
        return changed

    # ------------------------------------------------- type pairs (both ways)

    @staticmethod
    def type_class(tp):
        if A.tp_label(tp) == 'object':
            return 'object'
        k = A.tp_kind(tp)
        return 'number' if k in ('int', 'float', 'bool') else \
            '%s(%s)' % (k, A.tp_family(tp))

    def run_type_pair_case(self, case):
        """One unordered pair of type points, one value variant: every
        option point in BOTH directions.  Oracle: the model in each
        direction; and, the frames having the same column names, the two
        directions must agree (every condition of the statement is a
        symmetric relation then)."""
        R = Res()
        entry, x, y, var = case['e'], case['x'], case['y'], case['var']
        fx, fy, agree = A.tp_frames(x, y, var)
        dfx, dfy = self.build(fx), self.build(fy)
        names = [c[0] for c in fx]
        dirs = [(x, y, fx, fy, dfx, dfy)]
        if x != y:
            dirs.append((y, x, fy, fx, dfy, dfx))
        for opts in A.tp_points(agree, entry):
            sub = opt_key(opts)
            seen = []
            for (ta, tr, act, ref, adf, rdf) in dirs:
                want, why = M.verdict(act, ref, opts)
                a = adf.copy(deep=True)
                r = rdf.copy(deep=True)
                got, msg, tb = self.call(entry, a, r, opts, names, names, {})
                R.ev()
                R.out('%s:typepair:%s:%s[%s]->%s' % (
                    entry, var, want, '+'.join(why), got))
                self.unchanged(R, entry, opts, adf, a, rdf, r, False, sub)
                seen.append((ta, tr, want, got))
                if want == M.UNSPEC:
                    R.unspec += 1
                    continue
                R.nontrivial = True
                label = 'actual=%s,expected=%s,tm=%s' % (
                    self.type_class(ta), self.type_class(tr), opts['tm'])
                P = {'ref_spec': ref, 'act_spec': act}
                self.judge(R, entry, P, [['typepair', ta, tr, var]],
                           'typepair-' + var, label, opts, want, why, got,
                           msg, tb, sub + '|' + ta + '<-' + tr)
            if len(seen) != 2 or not M.symmetric_point(fx, fy, opts):
                continue
            (ta, tr, w1, g1), (_, _, w2, g2) = seen
            if w1 != M.UNSPEC and w2 != M.UNSPEC:
                continue        # both directions already judged by the model
            R.nontrivial = True
            if (g1 == 'pass') != (g2 == 'pass'):
                pa, pr = (ta, tr) if g1 == 'pass' else (tr, ta)
                R.viol('asymmetric:passes-only-as[actual=%s,expected=%s]:'
                       'tm=%s:%s' % (self.type_class(pa), self.type_class(pr),
                                     opts['tm'], entry),
                       'same-types-at-the-level-is-symmetric',
                       {'entry': entry, 'options': opts, 'variant': var,
                        'frame_x': fx, 'frame_y': fy,
                        'actual=x,expected=y': g1, 'actual=y,expected=x': g2,
                        'model': [w1, w2]}, sub + '|sym')
        return R

    # -------------------------------------- shared frame objects (E3, depth 2)

    def shared_refs(self):
        """Reference files of the shared-frames layer (once per worker):
        entry -> (paths, spec of what pandas reads back)."""
        if getattr(self, '_shared_refs', None) is None:
            out = {}
            for (e, fmt, ext) in (('pq', 'parquet', '.parquet'),
                                  ('csv', 'csv', '.csv')):
                path = os.path.join(self.sandbox, 'shared_ref' + ext)
                back = self.write_read(self.build(A.SHARED_REF), fmt, path)
                spec = self.spec_of(back)
                if spec is None:
                    raise RuntimeError('shared reference outside the model')
                out[e] = ({'ref': path}, spec)
            self._shared_refs = out
            self._shared_fresh = {}
        return self._shared_refs

    def run_shared_case(self, case):
        """Every history [first, j] of two comparisons that are given the
        SAME DataFrame objects (built once per history).  Each verdict must
        be the model's for the frames as the caller built them and equal to
        that of the same comparison on freshly built frames; after every
        comparison the frames must be what they were.  After a comparison
        with sortby the caller's rows may have been permuted (declared gray
        zone): later verdicts of that history are not judged and the frames
        are compared as multisets of rows."""
        R = Res()
        R.states = 0
        pair = case['pair']
        menu = A.shared_menu(pair)
        refs = self.shared_refs()
        ref_spec = A.SHARED_REF
        act_spec = ref_spec
        for d in A.SHARED_PAIRS[pair]:
            act_spec = A.apply_dev(act_spec, d)
        anames = [c[0] for c in act_spec]
        rnames = [c[0] for c in ref_spec]
        a0, r0 = self.build(act_spec), self.build(ref_spec)

        def frames():
            # new objects for every history (a0 / r0 stay pristine)
            adf = a0.copy(deep=True)
            return adf, (adf if pair == 'self' else r0.copy(deep=True))

        def spec_paths(entry):
            if entry in refs:
                return refs[entry][1], refs[entry][0]
            return ref_spec, {}

        for j in range(len(menu)):
            hist = [case['first'], j]
            adf, rdf = frames()
            R.states += 1
            sorted_before, changed, earlier = False, False, set()
            for pos, i in enumerate(hist):
                entry, opts = menu[i]
                rspec, paths = spec_paths(entry)
                want, why = M.verdict(act_spec, rspec, opts)
                fkey = (pair, i)
                if fkey not in self._shared_fresh:
                    fa, fr = frames()
                    self._shared_fresh[fkey] = self.call(
                        entry, fa, fr, opts, anames, rnames, paths)[0]
                    R.ev()
                fresh = self._shared_fresh[fkey]
                got, msg, tb = self.call(entry, adf, rdf, opts, anames,
                                         rnames, paths)
                R.ev()
                sub = {'pair': pair, 'position': pos,
                       'history': [[menu[h][0], opt_key(menu[h][1])]
                                   for h in hist]}
                last = pos == len(hist) - 1
                if last:
                    R.out('shared:%s:%s:%s[%s]->%s/fresh=%s%s' % (
                        entry, pair, want, '+'.join(why), got[:40],
                        fresh[:40], '/after-sort' if sorted_before else ''))
                if sorted_before:
                    R.unspec += 1 if last else 0
                elif got != fresh and pos > 0:
                    R.nontrivial = True
                    what = 'internal' if got.startswith('error:') else \
                        ('missed' if got == 'pass' else 'spurious')
                    R.viol('shared-frames:%s:after[%s]'
                           % (what, '+'.join(sorted(earlier)) or 'default'),
                           'verdict-is-that-of-the-frames-the-caller-built',
                           {'pair': pair, 'history': sub['history'],
                            'position': pos, 'entry': entry,
                            'reference': rspec, 'actual': act_spec,
                            'options': opts, 'on_fresh_frames': fresh,
                            'on_shared_frames': got, 'model': [want, why],
                            'message': (msg or '')[:300], 'traceback': tb},
                           sub)
                elif want != M.UNSPEC:
                    R.nontrivial = True
                    if last:
                        P = {'ref_spec': rspec, 'act_spec': act_spec}
                        self.judge(R, entry, P, A.SHARED_PAIRS[pair],
                                   'shared-' + pair, 'shared', opts, want,
                                   why, got, msg, tb, sub)
                else:
                    R.unspec += 1 if last else 0
                if opts['sort'] is not None:
                    sorted_before = True
                if not changed:
                    changed = self.unchanged(
                        R, entry, opts, a0, adf,
                        a0 if pair == 'self' else r0, rdf, sorted_before,
                        sub)
                for d in A.DIMS:
                    if opts[d] != A.DEFAULT_OPTS[d]:
                        earlier.add(d)
        return R

    # ------------------------------------------------------ histories (E3)

    def hist_op(self, mname, i):
        """Prepared frames / files, model verdict and fresh-object verdict of
        menu op i (cached for the life of the worker: they are functions of
        the op alone)."""
        key = (mname, i)
        cache = self.hist_cache
        menu = self.menus[mname]
        if key not in cache:
            entry, pair, opts = menu[i]
            P, skip, unspec = self.prepare(entry, A.HIST_REF,
                                           A.HIST_PAIRS[pair],
                                           prefix='h%s%d_' % (mname[0], i))
            if P is None:
                raise RuntimeError('history op cannot be prepared: %r %s'
                                   % (menu[i], skip))
            want, why = M.verdict(P['act_spec'], P['ref_spec'], opts)
            fresh = self.exec_op(self.new_rt(), menu[i], P)
            cache[key] = (P, want, why, fresh)
        return cache[key]

    def exec_op(self, rt, op, P):
        entry, pair, opts = op
        return self.call(entry, P['act_df'].copy(deep=True),
                         P['ref_df'].copy(deep=True), opts, P['anames'],
                         P['rnames'], P['paths'], rt=rt)

    def run_history_case(self, case):
        """Every history  prefix + [j]  (depth 2) or prefix + [j]  with a
        two-op prefix (depth 3) on ONE ReferenceTest / PandasComparison
        object; the state is the history: it is rebuilt from a fresh object
        every time."""
        R = Res()
        menu = self.menus[case['menu']]
        prefix = case['prefix']
        R.states = 0
        for j in range(len(menu)):
            hist = prefix + [j]
            rt = self.new_rt()
            R.states += 1
            nondefault = set()
            for pos, i in enumerate(hist):
                op = menu[i]
                entry, pair, opts = op
                P, want, why, fresh = self.hist_op(case['menu'], i)
                got, msg, tb = self.exec_op(rt, op, P)
                R.ev()
                devs = A.HIST_PAIRS[pair]
                sub = {'history': [[menu[h][0], menu[h][1],
                                    opt_key(menu[h][2])] for h in hist],
                       'position': pos}
                if pos == len(hist) - 1:
                    R.out('hist:%s:%s:%s[%s]->%s/fresh=%s'
                          % (entry, pair, want, '+'.join(why), got[:40],
                             fresh[0][:40]))
                if got != fresh[0] and pos > 0:
                    # differential oracle: same op, fresh object
                    R.nontrivial = True
                    if got.startswith('error:'):
                        what = 'internal'
                    elif got == 'pass':
                        what = 'missed'
                    else:
                        what = 'spurious'
                    after = '+'.join(sorted(nondefault)) or 'default'
                    R.viol('history:%s:%s:after[%s]' % (what, pair, after),
                           'verdict-depends-only-on-frames-and-options',
                           {'history': sub['history'], 'position': pos,
                            'entry': entry, 'reference': P['ref_spec'],
                            'actual': P['act_spec'], 'options': opts,
                            'on_fresh_object': fresh[0],
                            'in_history': got, 'model': [want, why],
                            'message': (msg or '')[:300],
                            'traceback': tb}, sub)
                elif want != M.UNSPEC:
                    R.nontrivial = True
                    if pos == len(hist) - 1:
                        self.judge(R, entry, P, devs, pair, 'hist', opts,
                                   want, why, got, msg, tb, sub)
                else:
                    R.unspec += 1 if pos == len(hist) - 1 else 0
                for d in A.DIMS:
                    if opts[d] != A.HIST_DEFAULT[d]:
                        nondefault.add(d)
        return R


CHECK = C05()
