"""
C06 - detection flags exactly the violating records and agrees with
verification.

E1 over (frame, constraint set) x output options x sinks, E3 over histories of
detections on one pair of output paths.  Every case runs the REAL detect_df
(and verify_df on a copy); the per-record reference flags come from
mc/models/verify_spec.py (record_flags), the file clauses from a small
state machine (a path holds the failing rows of the last failing detection
written to it, and nothing after a clean one).
"""
import contextlib
import hashlib
import io
import itertools
import json
import os
import shutil
import tempfile
from collections import OrderedDict

from mc.engine import Check, Res
from mc import verify_alphabet as A
from mc.models import verify_spec as M
from mc.checks.c02 import (frame_state, state_changes,
                           spec_entry, model_value, build_field_dict,
                           fam_class, bound_class, may_raise,
                           repair_may_fire, pick_values)

UNSPEC = M.UNSPEC
NFAIL = 'n_failures'

OPT_KEYS = ['per_constraint', 'write_all', 'output_fields', 'index',
            'in_place', 'interleave', 'boolean_ints']
BASE_OPTS = {'per_constraint': True, 'write_all': False,
             'output_fields': None, 'index': False, 'in_place': False,
             'interleave': False, 'boolean_ints': False}


def opts_product():
    for pc, wa, of, ix, ip, il, bi in itertools.product(
            (False, True), (False, True), ('none', 'all', 'first'),
            (False, True), (False, True), (False, True), (False, True)):
        yield {'per_constraint': pc, 'write_all': wa, 'output_fields': of,
               'index': ix, 'in_place': ip, 'interleave': il,
               'boolean_ints': bi}


def opts_sig(o):
    return ''.join([
        'P' if o['per_constraint'] else 'p', 'W' if o['write_all'] else 'w',
        {'none': 'o', 'all': 'A', 'first': 'F', None: 'o'}[o['output_fields']],
        'I' if o['index'] else 'i', 'L' if o['in_place'] else 'l',
        'V' if o['interleave'] else 'v', 'B' if o['boolean_ints'] else 'b',
        't' if o.get('of_form') == 'tuple' else ''])


def violated_and_satisfied(col, kind, tier):
    """Every boundary-derived value of one kind the model calls violated
    (with a precision for min/max), plus one it calls satisfied."""
    pycol = A.py_column(col)
    out, seen_sat = [], False
    values = (A.TYPE_VALUES_BASIC if kind == 'type'
              else A.constraint_values(col, kind, tier))
    for enc in values:
        if enc is None:
            continue
        precs = [None, 'open', 'closed'] if kind in ('min', 'max') else [None]
        for prec in precs:
            r = M.sat(kind, model_value(kind, enc), pycol, col['fam'],
                      type_checking='sloppy', epsilon=0.25, precision=prec)
            if r is False:
                out.append((enc, prec))
            elif r is True and not seen_sat:
                seen_sat = True
                out.append((enc, prec))
            elif r == UNSPEC and prec is None and kind in (
                    'sign', 'min_length', 'max_length', 'rex') \
                    and not any(o[0] == enc for o in out):
                out.append((enc, prec))       # undocumented type: no raise
    return out


def ref_nf_preview(failing, nrows):
    out = []
    for i in range(nrows):
        n = 0
        for (f, kind, e, fl) in failing:
            if fl is None:
                continue
            if fl[i] == UNSPEC:
                n = None
                break
            if fl[i] is False:
                n += 1
        out.append(n)
    return out


def parse_flag(x):
    """CSV / parquet / frame cell -> True | False | None."""
    if x is None:
        return None
    if isinstance(x, str):
        t = x.strip().lower()
        if t in ('true', '1', '1.0'):
            return True
        if t in ('false', '0', '0.0'):
            return False
        if t in ('', 'nan', 'none', 'null', '<na>'):
            return None
        return 'bad:%s' % x
    try:
        import pandas as pd
        if pd.isnull(x):
            return None
    except Exception:
        pass
    if x in (True, 1):
        return True
    if x in (False, 0):
        return False
    return 'bad:%r' % (x,)


class C06(Check):
    pid = 'C06'
    title = ('Detection flags exactly the violating records and agrees with '
             'verification')
    technique = ('bounded exhaustive enumeration of (frame, constraint set) x '
                 'output options x sinks on the real detect_df, plus BFS over '
                 'detection histories on one pair of output paths; oracle = '
                 'independent per-record constraint semantics, verify_df as '
                 'differential reference, file-existence state machine')
    rule = ('cases = every column (i64, f64, boolobj, strobj, dt[ns], Int64; '
            '<=3 rows quick, more families and rows thorough) x every kind x '
            'every boundary-derived value the model calls violated (+ one '
            'satisfied, + undocumented-type ones) with flags on; the full '
            'option product (192) x {no file, CSV, parquet} x {absent, stale '
            'file} on selected frames; two constraints on one or two fields '
            'incl. missing field and type failure; the FORM of the path '
            'arguments (outpath, constraints file: str, relative str, '
            'pathlib.Path, pure path, os.PathLike; output_fields list / '
            'tuple) x full option product x {CSV, parquet}, and outpath form '
            'x constraints form x sink x stale - judged by the model and '
            'against the plain-str run; BFS over histories '
            '(failing / other failing / clean detection x CSV / parquet path, '
            'from absent or stale files).  non-trivial = some constraint '
            'failed and record flags or counts were compared with the model')
    assumptions = [
        'record identity is read from the Index column when present and from '
        'the frame index otherwise (parquet + index returns the saved frame)',
        'flag columns are named <field>_<suffix>_ok, the count n_failures '
        '(tdda documentation / DESIGN 4 C06)',
        'gray: flags of kinds applied to a field type they are not documented '
        'for (sign on strings ...), foreign-type bounds, unanchored partial '
        'regular-expression matches, null values may be flagged true or null '
        '(never false) outside the type / null-count rules; CSV cell syntax '
        'is parsed, not compared; whether a file with zero rows exists when a '
        'constraint failed without any failing record (missing field)',
        'repair is switched off whenever a type constraint does not name the '
        'column type, so input-unchanged is always judged',
    ]

    def hashseeds(self, tier, verif_seed):
        return [verif_seed % 3]

    def layers(self, tier):
        return [
            ('one', 'one constraint on one field, per-constraint flags on, no '
                    'file: flags, counts, rows, verdict agreement'),
            ('options', 'full option product x sinks x stale on selected '
                        '(frame, constraint set) pairs'),
            ('two', 'two constraints on one or two fields (violated / '
                    'satisfied / missing field / type failure), a few option '
                    'points, all sinks'),
            ('forms', 'the FORM of the path arguments: outpath and the '
                      'constraints file each named as str, relative str, '
                      'pathlib.Path, pure path and os.PathLike - full option '
                      'product x {CSV, parquet} per outpath form; outpath form '
                      'x constraints form x {no file, CSV, parquet} x {absent, '
                      'stale}; every clause as before + same frame and same '
                      'file as for the plain str'),
            ('hist', 'E3: histories of detections on one CSV and one parquet '
                     'path, from absent or stale files'),
        ]

    # ----------------------------------------------------------------- cases
    def cases(self, tier, layer):
        if layer == 'one':
            for col in A.columns(tier, 'c06'):
                for kind in A.KINDS:
                    if tier == 'quick' and 'cats' in col and kind in (
                            'sign', 'max_nulls'):
                        continue      # nothing categorical about them
                    yield {'L': 'one', 'col': col, 'kind': kind}
        elif layer == 'options':
            for fr in OPTION_FRAMES:
                for sink in (None, 'csv', 'parquet'):
                    for stale in ((False, True) if sink else (False,)):
                        three = len(fr['cols'][0]['vals']) == 3
                        for ix in INDEX_VARIANTS:
                            lab = isinstance(ix, list) or (
                                isinstance(ix, dict) and ix.get('labels'))
                            if lab and not three:
                                continue
                            if tier == 'quick' and sink:
                                # files: one unnamed labelled and one named
                                # labelled index (unlabelled ones when the
                                # frame has no three rows)
                                if three and ix not in (INDEX_VARIANTS[1],
                                                        INDEX_VARIANTS[2]):
                                    continue
                                if three and ix is INDEX_VARIANTS[2] and (
                                        stale or sink != 'csv'):
                                    continue
                                if not three and ix is not None:
                                    continue
                            for half in (0, 1, 2, 3):
                                yield {'L': 'options', 'frame': fr,
                                       'sink': sink, 'stale': stale,
                                       'index': ix, 'part': half}
        elif layer == 'two':
            for col in A.columns(tier, 'c06'):
                n = len(col['vals'])
                if col['fam'] == 'manycat' or (tier == 'quick'
                                               and 'cats' in col):
                    continue
                big = col['fam'] in ('i64', 'f64', 'strobj')
                if tier == 'quick':
                    lim = 2 if big else 1
                else:
                    lim = 3 if col['fam'] in ('i64', 'f64') else 2
                if n > lim or n == 0:
                    continue
                for k1 in A.KINDS:
                    yield {'L': 'two', 'col': col, 'k1': k1}
        elif layer == 'forms':
            for fi in FORM_FRAMES_FULL:
                for sink in ('csv', 'parquet'):
                    for part in range(8):
                        yield {'L': 'forms', 'mode': 'options', 'frame': fi,
                               'sink': sink, 'part': part}
            for fi in range(len(FORM_FRAMES)):
                for sink in (None, 'csv', 'parquet'):
                    for stale in ((False, True) if sink else (False,)):
                        yield {'L': 'forms', 'mode': 'cross', 'frame': fi,
                               'sink': sink, 'stale': stale}
        elif layer == 'hist':
            depth = 3 if tier == 'quick' else 4
            for init in ('absent', 'stale-csv', 'stale-parquet', 'stale-both'):
                for wa in (False, True):
                    for of in ('none', 'first'):
                        yield {'L': 'hist', 'init': init, 'write_all': wa,
                               'output_fields': of, 'depth': depth}

    # --------------------------------------------------------------- workers
    def setup_worker(self, tier):
        self.tier = tier
        from tdda.constraints import verify_df, detect_df
        import pandas as pd
        import numpy as np
        self.verify_df, self.detect_df = verify_df, detect_df
        self.pd, self.np = pd, np
        self.sandbox = tempfile.mkdtemp(prefix='mc_c06_', dir='/var/tmp')

    def teardown_worker(self):
        sb = getattr(self, 'sandbox', None)
        if sb and os.path.isdir(sb):
            shutil.rmtree(sb, ignore_errors=True)

    def clean_sandbox(self):
        for n in os.listdir(self.sandbox):
            p = os.path.join(self.sandbox, n)
            if os.path.isdir(p):
                shutil.rmtree(p, ignore_errors=True)
            else:
                os.remove(p)

    # -------------------------------------------------------------- run_case
    def run_case(self, case):
        R = Res()
        self.clean_sandbox()
        self.vcache_key = None
        L = case['L']
        before = R.checked
        if L == 'one':
            col, kind = case['col'], case['kind']
            for (enc, prec) in violated_and_satisfied(col, kind, self.tier):
                fields = OrderedDict([('a', [spec_entry(kind, enc, prec)])])
                self.judge(R, [col], ['a'], None, fields, 0.25, None,
                           dict(BASE_OPTS), None, False,
                           {'val': enc, 'prec': prec})
                if kind == 'type':
                    self.judge(R, [col], ['a'], None, fields, 0.25, 'strict',
                               dict(BASE_OPTS), None, False,
                               {'val': enc, 'tc': 'strict'})
        elif L == 'options':
            fr = case['frame']
            for n, o in enumerate(opts_product()):
                if n % 4 != case['part']:
                    continue
                self.clean_sandbox()
                fields = OrderedDict(
                    (f, [spec_entry(*e) for e in es])
                    for f, es in fr['fields'])
                self.judge(R, fr['cols'], fr['names'], case['index'], fields,
                           0.25, None, o, case['sink'], case['stale'],
                           {'opts': opts_sig(o)})
        elif L == 'two':
            self.run_two(R, case)
        elif L == 'forms':
            self.run_forms(R, case)
        elif L == 'hist':
            self.run_hist(R, case)
        R.nontrivial = R.checked > before
        return R

    # ------------------------------------------------------------ one call
    def call(self, fn, df, cdict, eps, tc, repair, extra):
        kw = dict(extra)
        kw['epsilon'] = eps
        if tc is not None:
            kw['type_checking'] = tc
        if repair is False:
            kw['repair'] = False
        out, err = io.StringIO(), io.StringIO()
        try:
            with contextlib.redirect_stdout(out), \
                    contextlib.redirect_stderr(err):
                return ('ok', fn(df, cdict, **kw))
        except Exception as e:
            return ('exc', e)

    def judge(self, R, cols, names, index, fields, eps, tc, opts, sink, stale,
              sub, path=None, keep_file=False, path_form=None,
              cons_form=None):
        """Run verify_df and detect_df on fresh copies of one frame and check
        every clause of the statement.  Returns (failed?, labels written) or
        None when tdda raised.  path_form / cons_form: the FORM in which
        outpath / the constraints are handed to detect_df (A.PATH_FORMS;
        cons_form None = the dictionary itself, otherwise a .tdda file named
        in that form).  self.last keeps what was returned and written, for
        differential comparison between forms."""
        self.last = {'frame': None, 'file': None, 'exists': None}
        # (signatures of the clauses below do not name the forms: a defect
        # that needs a particular form is named by the differential clause
        # of the 'forms' layer, one that does not is the same in every form)
        pd = self.pd
        pycols = dict((n, A.py_column(c)) for c, n in zip(cols, names))
        fams = dict((n, c['fam']) for c, n in zip(cols, names))
        df = A.build_frame(cols, names, index)
        df.attrs['origin'] = {'k': [1, 2]}
        pre = df.copy(deep=True)
        self.state0 = frame_state(df)
        labels = list(df.index)
        nrows = len(df)
        cdict = OrderedDict()
        added = {}
        repair = None
        unjudged_exc = False
        for f, entries in fields.items():
            cdict[f], added[f] = build_field_dict(entries)
            if f in fams:
                if may_raise(fams[f], pycols[f], entries, tc):
                    unjudged_exc = True
                if repair_may_fire(fams[f], pycols[f], entries):
                    repair = False
        full = {'fields': cdict}
        detail = {'frame': dict((n, c) for c, n in zip(cols, names)),
                  'index': index,
                  'constraints': json.loads(json.dumps(cdict, default=str)),
                  'epsilon': eps, 'type_checking': tc, 'options': opts,
                  'sink': sink, 'stale': stale}
        if path_form or cons_form:
            detail['outpath_form'] = path_form
            detail['constraints_form'] = cons_form or 'dict'
        kinds_sig = '+'.join(sorted(set(e['kind'] for es in fields.values()
                                        for e in es)))
        famsig = '+'.join(sorted(set(fam_class(f) for f in fams.values())))

        if sink and path is None:
            path = os.path.join(self.sandbox, 'out.' + sink)
        if sink and stale:
            with open(path, 'w') as fh:
                fh.write('Index,n_failures\n99,7\n')

        # ---- plain verification on a copy (differential reference)
        vkey = json.dumps([detail['frame'], index, detail['constraints'], eps,
                           tc, repair], sort_keys=True, default=str)
        cached = getattr(self, 'vcache_key', None) == vkey
        if cached:
            vs, vv = self.vcache       # same frame and constraints, this case
        else:
            vs, vv = self.call(self.verify_df, pre.copy(deep=True), full, eps,
                               tc, repair, {})
            self.vcache_key, self.vcache = vkey, (vs, vv)
        # ---- detection
        extra = {'per_constraint': opts['per_constraint'],
                 'write_all': opts['write_all'], 'index': opts['index'],
                 'in_place': opts['in_place'],
                 'boolean_ints': opts['boolean_ints']}
        of = opts['output_fields']
        if of == 'all':
            extra['output_fields'] = []
        elif of == 'first':
            extra['output_fields'] = [names[0]]
        if opts.get('of_form') == 'tuple' and 'output_fields' in extra:
            # the FORM of the field list: a tuple instead of a list
            extra['output_fields'] = tuple(extra['output_fields'])
        if opts['interleave']:
            extra['interleave'] = True
        if sink:
            extra['outpath'] = A.path_in_form(path, path_form)
        cons_arg = full
        if cons_form is not None:
            cpath = os.path.join(self.sandbox, 'constraints.tdda')
            with open(cpath, 'w') as fh:
                json.dump(full, fh)
            cons_arg = A.path_in_form(cpath, cons_form)
        ds, dv = self.call(self.detect_df, df, cons_arg, eps, tc, repair,
                           extra)
        R.ev(1 if cached else 2)
        if ds == 'exc' or vs == 'exc':
            R.out('raise:%s/%s' % (type(dv).__name__ if ds == 'exc' else 'ok',
                                   type(vv).__name__ if vs == 'exc' else 'ok'))
            if unjudged_exc or (ds == 'exc' and vs == 'exc'
                                and type(dv) == type(vv)):
                R.unspec += 1          # verification itself raises: C02's
                return None
            who = 'detect' if ds == 'exc' else 'verify-only'
            e = dv if ds == 'exc' else vv
            R.viol('%s-raises:%s:%s' % (who, type(e).__name__,
                                        self.exc_disc(e, opts, sink)),
                   'detection-agrees-with-verification-no-raise',
                   dict(detail, exception=repr(e)[:300]), sub)
            return None

        # ---- verdicts identical to verification
        dverd = OrderedDict((f, OrderedDict((k, (None if s is None
                                                 else bool(s)))
                                            for k, s in r.items()))
                            for f, r in dv.fields.items())
        vverd = OrderedDict((f, OrderedDict((k, (None if s is None
                                                 else bool(s)))
                                            for k, s in r.items()))
                            for f, r in vv.fields.items())
        R.checked += 1
        if dict((f, dict(r)) for f, r in dverd.items()) != \
                dict((f, dict(r)) for f, r in vverd.items()):
            bad = sorted(set('%s' % k for f in dverd for k in dverd[f]
                             if vverd.get(f, {}).get(k) != dverd[f][k]))
            R.viol('verdict-differs-from-verify:%s:%s' % ('+'.join(bad),
                                                          famsig),
                   'constraint-verdicts-identical-to-verification',
                   dict(detail, detect=dverd, verify=vverd), sub)
        if (dv.passes, dv.failures) != (vv.passes, vv.failures):
            R.viol('totals-differ-from-verify:%s' % kinds_sig,
                   'constraint-verdicts-identical-to-verification',
                   dict(detail, detect=[dv.passes, dv.failures],
                        verify=[vv.passes, vv.failures]), sub)

        # ---- model: verdicts and per-record flags of failing constraints
        epsm = eps
        failing = []         # (field, kind, entry, flags or None)
        self.definite_fail = set()   # failing, and the model says so too
        model_ok = True      # model verdicts compatible with the observed
        for f, entries in fields.items():
            judged = list(entries)
            for k in added[f]:
                judged = [spec_entry('type', 'date')] + judged
            for e in judged:
                kind = e['kind']
                o = dverd.get(f, {}).get(kind)
                if o is None:
                    model_ok = False
                    continue
                present = f in fams
                mv = model_value(kind, e['val'])
                if kind in ('min', 'max') and \
                        A.bound_needs_type_date(e['val']) and \
                        cdict[f].get('type') != 'date':
                    mv = ('unknown', None)
                want = M.sat(kind, mv, pycols.get(f, []), fams.get(f),
                             type_checking=tc, epsilon=epsm,
                             precision=e.get('prec'), present=present)
                if want != UNSPEC and want is not o:
                    model_ok = False        # C02's business, not judged here
                if o is False and want is False and present:
                    self.definite_fail.add((f, kind))
                if o is False:
                    if not present:
                        failing.append((f, kind, e, None))
                    else:
                        fl = M.record_flags(kind, mv, pycols[f], fams[f],
                                            epsilon=epsm,
                                            precision=e.get('prec'))
                        if want == UNSPEC and kind not in ('type',
                                                           'max_nulls'):
                            # the documentation does not define the verdict:
                            # nor, then, which records carry the blame
                            fl = [UNSPEC for x in fl]
                        R.unspec += sum(1 for x in fl if x == UNSPEC)
                        failing.append((f, kind, e, fl))
        any_failed = any(s is False for r in dverd.values()
                         for s in r.values())
        R.out('%s|%s|%s|%s' % (
            kinds_sig[:30], 'fail' if any_failed else 'clean',
            opts_sig(opts) + (sink or '-'),
            ''.join('?' if x is None else str(x) for x in ref_nf_preview(
                failing, nrows))))

        # reference failure count per row
        ref_nf = []
        for i in range(nrows):
            n, definite = 0, model_ok
            for (f, kind, e, fl) in failing:
                if fl is None:
                    continue
                if fl[i] == UNSPEC:
                    definite = False
                elif fl[i] is False:
                    n += 1
            ref_nf.append(n if definite else None)
        all_definite = all(x is not None for x in ref_nf)

        # ---- no constraint failed: nothing detected, no file, input intact
        if not any_failed:
            if dv.detection is not None and dv.detection.n_failing_records:
                R.viol('failing-records-without-failed-constraint:%s'
                       % kinds_sig, 'counts-partition-rows',
                       dict(detail, n_failing=int(
                           dv.detection.n_failing_records)), sub)
            if sink:
                R.checked += 1
                self.last['exists'] = os.path.exists(path)
                if os.path.exists(path):
                    R.viol('file-after-clean-run:%s:%s'
                           % (sink, 'stale' if stale else 'fresh'),
                           'output-file-only-if-some-constraint-failed',
                           dict(detail, content=self.peek(path)), sub)
            self.check_input(R, df, pre, opts, None, detail, sub, famsig)
            if sink and not keep_file and os.path.exists(path):
                os.remove(path)
            return (False, None)

        # ---- some constraint failed
        det = dv.detected()
        if det is None or dv.detection is None:
            R.viol('no-detection-object:%s' % kinds_sig,
                   'detection-produced-when-constraint-failed', detail, sub)
            return (True, None)
        npass = int(dv.detection.n_passing_records)
        nfail = int(dv.detection.n_failing_records)
        R.checked += 1
        if npass + nfail != nrows or npass < 0 or nfail < 0:
            R.viol('counts-do-not-partition:%s:%s' % (kinds_sig, famsig),
                   'counts-partition-rows',
                   dict(detail, n_passing=npass, n_failing=nfail,
                        rows=nrows), sub)
        add_index = opts['index'] or opts['output_fields'] == 'none'
        self.flag_bad = False
        self.last['frame'] = self.table_state(det)
        self.check_table(R, 'frame', det, labels, pre, names, failing, ref_nf,
                         opts, False, detail, sub, kinds_sig, famsig)
        if self.flag_bad:
            ref_nf = [None] * nrows       # consequences of the wrong flag
            all_definite = False
        if all_definite:
            want_fail = sum(1 for x in ref_nf if x > 0)
            if nfail != want_fail:
                R.viol('failing-count:%s' % kinds_sig, 'counts-equal-model',
                       dict(detail, n_failing=nfail, expected=want_fail,
                            per_row=ref_nf), sub)
        self.check_input(R, df, pre, opts, ref_nf, detail, sub, famsig)
        written = None
        if sink:
            R.checked += 1
            self.last['exists'] = os.path.exists(path)
            if not os.path.exists(path):
                if nfail > 0 or opts['write_all']:
                    R.viol('no-file-after-failing-run:%s' % sink,
                           'output-file-holds-failing-records', detail, sub)
            else:
                tab = self.read_file(path, sink)
                if tab is None:
                    R.viol('unreadable-output:%s:%s'
                           % (sink, 'stale' if stale else 'fresh'),
                           'output-file-holds-failing-records',
                           dict(detail, content=self.peek(path)), sub)
                else:
                    self.last['file'] = self.table_state(tab)
                    written = self.check_table(
                        R, sink, tab, labels, pre, names, failing, ref_nf,
                        opts, add_index, detail, sub, kinds_sig, famsig)
                if not keep_file:
                    os.remove(path)
        return (True, written)

    # --------------------------------------------------------------- pieces
    def exc_disc(self, e, opts, sink):
        msg = str(e)
        if 'already exists' in msg:
            return 'column-name-collision'
        if 'Unordered Categoricals' in msg:
            return 'unordered-categorical-compared-with-bound'
        if "can't compare datetime.datetime to datetime.date" in msg:
            return 'date-objects-compared-with-datetime-bound'
        return msg[:40]

    def table_state(self, tab):
        """A returned frame / a file read back, as comparable plain data:
        column labels in order, dtypes, index labels, cells with their null
        flavour."""
        try:
            return {'columns': [str(c) for c in tab.columns],
                    'dtypes': [str(t) for t in tab.dtypes.tolist()],
                    'index': [repr(x) for x in tab.index],
                    'index-names': [repr(n) for n in tab.index.names],
                    'cells': [['%s:%r' % (type(x).__name__, x) for x in row]
                              for row in tab.to_numpy(dtype=object).tolist()]}
        except Exception as e:
            return {'unreadable': repr(e)[:100]}

    def peek(self, path):
        try:
            with open(path, 'rb') as fh:
                return repr(fh.read(200))
        except Exception as e:
            return repr(e)

    def read_file(self, path, sink):
        pd = self.pd
        try:
            if sink == 'parquet':
                return pd.read_parquet(path)
            if os.path.getsize(path) == 0:
                return None
            return pd.read_csv(path, dtype=str, keep_default_na=False)
        except Exception:
            return None

    def check_input(self, R, df, pre, opts, ref_nf, detail, sub, famsig):
        """The complete caller-visible state of the input frame (values, null
        flavours, dtypes, column labels / order / column-index name, row index
        values / names / type, attrs, categories and orderedness) is as before
        the call unless in_place; with in_place only columns are appended, and
        the added failure count equals the model."""
        R.checked += 1
        orig = list(pre.columns)
        changed = state_changes(self.state0, frame_state(df),
                                in_place=opts['in_place'])
        if changed:
            R.viol('input-changed:%s%s' % ('+'.join(changed),
                                           ':in-place' if opts['in_place']
                                           else ''),
                   'input-unchanged-unless-in-place',
                   dict(detail, changed=changed,
                        before=dict((k, self.state0[k]) for k in changed
                                    if k in self.state0),
                        after=dict((k, v) for k, v in frame_state(df).items()
                                   if k in changed)), sub)
        if not opts['in_place']:
            return
        if ref_nf is not None:
            newc = [c for c in df.columns if c not in orig]
            nfc = [c for c in newc if str(c).startswith(NFAIL)]
            if not nfc:
                R.viol('in-place-no-failure-count', 'in-place-adds-detection',
                       dict(detail, columns_after=[str(c)
                                                   for c in df.columns]), sub)
            else:
                got = [int(x) for x in df[nfc[0]]]
                for i, (g, w) in enumerate(zip(got, ref_nf)):
                    if w is not None and g != w:
                        R.viol('in-place-failure-count:%s' % famsig,
                               'failure-count-equals-false-flags',
                               dict(detail, got=got, expected=ref_nf), sub)
                        break

    def check_table(self, R, where, tab, labels, pre, names, failing, ref_nf,
                    opts, need_index, detail, sub, kinds_sig, famsig):
        """One detection table (returned frame or file).  Returns the list of
        record labels it holds (None when they cannot be identified)."""
        pd = self.pd
        cols = [str(c) for c in tab.columns]
        osig = opts_sig(opts)
        self.cur_opts = opts
        d2 = dict(detail, where=where, columns=cols)
        if NFAIL not in cols:
            R.viol('no-failure-count-column:%s' % where,
                   'failure-count-equals-false-flags', d2, sub)
            return None
        try:
            nf = [int(float(x)) for x in tab[NFAIL]]
        except Exception:
            R.viol('bad-failure-count-column:%s' % where,
                   'failure-count-equals-false-flags',
                   dict(d2, values=[str(x) for x in tab[NFAIL]]), sub)
            return None
        # ---- record identity
        if 'Index' in cols:
            raw = list(tab['Index'])
            got_labels = []
            for x in raw:
                try:
                    got_labels.append(int(x))
                except Exception:
                    got_labels.append(x)
        elif where == 'frame':
            got_labels = list(tab.index)
        else:
            got_labels = None
            if need_index:
                R.viol('no-index-column:%s:of-%s' % (where, opts['output_fields']),
                       'index-column-when-requested', d2, sub)
        pos = dict((lab, i) for i, lab in enumerate(labels))
        nrows = len(labels)
        # ---- flags first: a wrong flag explains wrong counts and rows
        flag_bad = False
        if got_labels is not None and opts['per_constraint'] and \
                not [l for l in got_labels if l not in pos]:
            flag_bad = self.check_flags(R, where, tab, cols, names,
                                        [pos[l] for l in got_labels], failing,
                                        detail, d2, sub)
        if flag_bad:
            ref_nf = [None] * nrows
            self.flag_bad = True
        # ---- which records are present
        R.checked += 1
        if got_labels is not None:
            unknown = [l for l in got_labels if l not in pos]
            if unknown or len(set(got_labels)) != len(got_labels):
                R.viol('foreign-or-repeated-records:%s' % where,
                       'output-holds-exactly-failing-records',
                       dict(d2, labels=[str(l) for l in got_labels]), sub)
                return None
            rows = [pos[l] for l in got_labels]
            if opts['write_all']:
                if sorted(rows) != list(range(nrows)):
                    R.viol('write-all-rows:%s' % where,
                           'output-holds-all-records-when-requested',
                           dict(d2, rows=rows), sub)
            else:
                if any(n <= 0 for n in nf):
                    R.viol('passing-record-in-output:%s' % where,
                           'output-holds-exactly-failing-records',
                           dict(d2, n_failures=nf, rows=rows), sub)
                if all(x is not None for x in ref_nf):
                    want = [i for i in range(nrows) if ref_nf[i] > 0]
                    if sorted(rows) != want:
                        R.viol('failing-rows:%s:%s' % (where, kinds_sig),
                               'output-holds-exactly-failing-records',
                               dict(d2, rows=rows, expected=want), sub)
        else:
            rows = None
            if all(x is not None for x in ref_nf):
                want = sorted(x for x in ref_nf if opts['write_all'] or x > 0)
                if sorted(nf) != want:
                    R.viol('failing-rows-unlabelled:%s:%s'
                           % (where, kinds_sig),
                           'output-holds-exactly-failing-records',
                           dict(d2, n_failures=nf, expected=want), sub)
        # ---- failure counts and flags, row by row
        if rows is not None:
            for j, i in enumerate(rows):
                if ref_nf[i] is not None and nf[j] != ref_nf[i]:
                    R.viol('failure-count:%s:%s' % (where, kinds_sig),
                           'failure-count-equals-false-flags',
                           dict(d2, row=i, got=nf[j], expected=ref_nf[i],
                                per_row=ref_nf), sub)
                    break
        if opts['per_constraint']:
            okcols = [c for c in cols if c.endswith('_ok')
                      and c not in self.requested(opts, names)]
            flagvals = dict((c, [parse_flag(x) for x in tab[c]])
                            for c in okcols)
            for c, vals in flagvals.items():
                if any(isinstance(v, str) for v in vals):
                    R.viol('bad-flag-cell:%s' % where,
                           'flags-are-boolean-or-null',
                           dict(d2, column=c, cells=[str(v) for v in vals]),
                           sub)
                    return got_labels
            # count = number of false flags (on what is shown)
            for j in range(len(nf)):
                nfalse = sum(1 for c in okcols if flagvals[c][j] is False)
                if nfalse != nf[j]:
                    R.viol('count-vs-flags:%s:%s' % (where, kinds_sig),
                           'failure-count-equals-false-flags',
                           dict(d2, row=j, n_failures=nf[j],
                                false_flags=nfalse,
                                flags=dict((c, [str(x) for x in v])
                                           for c, v in flagvals.items())),
                           sub)
                    break
        # ---- requested original fields
        of = opts['output_fields']
        wanted = {'none': [], None: [], 'all': list(names),
                  'first': [names[0]]}[of]
        for n in wanted:
            if n not in cols:
                R.viol('original-field-missing:%s:of-%s' % (where, opts['output_fields']),
                       'requested-original-fields-present', dict(d2, field=n),
                       sub)
            elif rows is not None and where != 'csv':
                for j, i in enumerate(rows):
                    a, b = tab[n].iloc[j], pre[n].iloc[i]
                    na, nb = pd.isnull(a), pd.isnull(b)
                    if (na != nb) or (not na and a != b):
                        R.viol('original-field-value:%s:of-%s' % (where, opts['output_fields']),
                               'requested-original-fields-present',
                               dict(d2, field=n, row=i, got=str(a),
                                    expected=str(b)), sub)
                        break
        return got_labels

    @staticmethod
    def requested(opts, names):
        return {'none': [], None: [], 'all': list(names),
                'first': [names[0]]}[opts['output_fields']]

    def check_flags(self, R, where, tab, cols, names, rows, failing, detail,
                    d2, sub):
        """Flag of every failing constraint, record by record."""
        okcols = [c for c in cols if c.endswith('_ok')
                  and c not in self.requested(self.cur_opts, names)]
        flagvals = dict((c, [parse_flag(x) for x in tab[c]]) for c in okcols)
        bad = False
        for (f, kind, e, fl) in failing:
            if fl is None:
                continue
            if not any(x is True or x is False for x in fl):
                continue
            cname = '%s_%s_ok' % (f, A.SUFFIX[kind])
            if cname not in flagvals:
                R.viol('flag-column-missing:%s:%s:%s'
                       % (where, kind, fam_class(detail['frame'][f]['fam'])),
                       'flag-per-failing-constraint',
                       dict(d2, wanted=cname), sub)
                bad = True
                continue
            R.checked += 1
            if where == 'frame' and (f, kind) in self.definite_fail and \
                    len(fl) > 0 and not any(x is False
                                            for x in flagvals[cname]):
                # model-independent: a constraint that failed on records it
                # can be checked on must put the blame on at least one
                R.viol('failed-constraint-flags-no-record:%s:%s'
                       % (kind, fam_class(detail['frame'][f]['fam'])),
                       'flag-false-exactly-on-violating-records',
                       dict(d2, field=f, kind=kind,
                            observed=[str(x) for x in flagvals[cname]]), sub)
                bad = True
                continue
            for j, i in enumerate(rows):
                if not M.flag_agrees(fl[i], flagvals[cname][j]):
                    R.viol(self.flag_sig(where, kind, e, detail, f, fl[i],
                                         flagvals[cname][j]),
                           'flag-false-exactly-on-violating-records',
                           dict(d2, field=f, kind=kind, row=i,
                                expected=[str(x) for x in fl],
                                observed=[str(x) for x in flagvals[cname]],
                                rows=rows), sub)
                    bad = True
                    break
        return bad

    def flag_sig(self, where, kind, e, detail, f, want, got):
        fam = detail['frame'][f]['fam']
        s = 'flag:%s:%s' % (kind, fam_class(fam))
        if kind in ('min', 'max'):
            s += ':%s:%s' % (e.get('prec') or 'default', bound_class(e['val']))
        if want is M.NOTFALSE:
            return 'flag:%s:null-value-flagged-false%s' % (
                kind, (':' + where if where != 'frame' else ''))
        else:
            s += ':want%s-got%s' % (want, got)
        return s + (':' + where if where != 'frame' else '')

    # ------------------------------------------------------------- layer two
    def run_two(self, R, case):
        col, k1 = case['col'], case['k1']
        tier = self.tier
        v1s = pick_values(col, k1, tier)
        other = {'fam': 'i64', 'vals': [1, 0, 3][:len(col['vals'])]}
        optpoints = [dict(BASE_OPTS),
                     dict(BASE_OPTS, per_constraint=False, write_all=True,
                          output_fields='all', index=True),
                     dict(BASE_OPTS, in_place=True, output_fields='first',
                          interleave=True)]
        sinks = [None, 'csv', 'parquet']
        n = 0
        for k2 in A.KINDS[A.KINDS.index(k1) + 1:]:
            v2s = pick_values(col, k2, tier)
            for e1 in v1s:
                for e2 in v2s:
                    n += 1
                    o = optpoints[n % 3]
                    sink = sinks[(n // 3) % 3]
                    fields = OrderedDict([('a', [spec_entry(k1, e1),
                                                 spec_entry(k2, e2)])])
                    self.clean_sandbox()
                    self.judge(R, [col], ['a'], None, fields, 0.25, None, o,
                               sink, False, {'k2': k2, 'v1': e1, 'v2': e2,
                                             'same_field': True})
        # two fields: this column + an int column / a missing field / a
        # colliding field name
        combos = [(o, sink) for o in optpoints for sink in sinks]
        for e1 in v1s:
            for (n2, second) in (('b c', [spec_entry('min', 1)]),
                                 ('b c', [spec_entry('min', -5)]),
                                 ('b c', [spec_entry('type', 'string')]),
                                 ('zz', [spec_entry('max_nulls', 0)]),
                                 ('a_min_ok', [spec_entry('max', 2)])):
                n += 1
                if self.tier == 'thorough':
                    todo = [combos[(n + j * 4) % len(combos)] for j in (0, 1, 2)]
                else:
                    todo = [combos[n % len(combos)]]
                for (o, sink) in todo:
                    names = ['a', n2 if n2 != 'zz' else 'b c']
                    fields = OrderedDict([('a', [spec_entry(k1, e1)]),
                                          (n2, second)])
                    self.clean_sandbox()
                    self.judge(R, [col, other], names, None, fields, 0.25,
                               None, o, sink, False,
                               {'v1': e1, 'second': n2,
                                'second_c': second[0]['kind'],
                                'opts': opts_sig(o), 'sink': sink})

    # ----------------------------------------------------------- layer forms
    def run_forms(self, R, case):
        """The same detection with the path arguments in every form.  The
        plain str (dictionary for the constraints) runs first and is the
        reference of the differential clause; every run is also judged
        against the model like any other."""
        fr = FORM_FRAMES[case['frame']]
        sink = case['sink']
        fields = OrderedDict((f, [spec_entry(*e) for e in es])
                             for f, es in fr['fields'])
        if case['mode'] == 'options':
            points = [(o, False, pf, None) for n, o in enumerate(
                opts_product()) if n % 8 == case['part']
                for pf in A.PATH_FORMS]
        else:
            optpoints = [dict(BASE_OPTS),
                         dict(BASE_OPTS, write_all=True, output_fields='all',
                              index=True, boolean_ints=True),
                         dict(BASE_OPTS, per_constraint=False, in_place=True,
                              output_fields='first', interleave=True),
                         dict(BASE_OPTS, write_all=True, output_fields='all',
                              index=True, boolean_ints=True,
                              of_form='tuple'),
                         dict(BASE_OPTS, per_constraint=False, in_place=True,
                              output_fields='first', interleave=True,
                              of_form='tuple')]
            # full cross of the two forms at the base option point, the
            # diagonal (both arguments in the same form) at the other two
            points = [(o, case['stale'], pf, cf)
                      for i, o in enumerate(optpoints)
                      for cf in [None] + A.PATH_FORMS
                      for pf in (A.PATH_FORMS if sink else [None])
                      if i == 0 or pf is None or cf == pf or cf is None]
        ref = {}
        for (o, stale, pf, cf) in points:
            self.clean_sandbox()
            res = self.judge(R, fr['cols'], fr['names'], None, fields, 0.25,
                             None, o, sink, stale,
                             {'opts': opts_sig(o), 'outpath_form': pf,
                              'constraints_form': cf},
                             path_form=pf, cons_form=cf)
            # one argument at a time: the constraints file in any form
            # against the dictionary (same outpath form), then the outpath
            # in any form against the plain str (dictionary constraints)
            got = (res is None, dict(self.last))
            if cf is None:
                ref[(opts_sig(o), pf)] = got
                if pf in (None, 'str'):
                    if o.get('of_form') != 'tuple':
                        continue
                    key = (opts_sig(o)[:-1], pf)      # the list form
                    arg = 'output_fields=tuple'
                else:
                    key = (opts_sig(o), 'str')
                    arg = 'outpath=' + pf
            else:
                key = (opts_sig(o), pf)
                arg = 'constraints=' + cf
            if key not in ref:
                continue
            R.checked += 1
            if got != ref[key]:
                what = ('raises' if got[0] != ref[key][0] else [
                    k for k in ('exists', 'file', 'frame')
                    if got[1][k] != ref[key][1][k]][0])
                R.viol('path-form-changes-result:%s:%s' % (
                    arg, 'raises' if what == 'raises' else
                    '%s:%s' % (sink or 'nofile', what)),
                    'every-form-of-a-path-names-the-same-file',
                    {'frame': dict((n, c) for c, n in zip(fr['cols'],
                                                          fr['names'])),
                     'fields': fr['fields'], 'options': o, 'sink': sink,
                     'stale': stale, 'outpath_form': pf,
                     'constraints_form': cf or 'dict',
                     'with_str': ref[key][1], 'with_this_form': got[1]},
                    {'opts': opts_sig(o), 'outpath_form': pf,
                     'constraints_form': cf})

    # ------------------------------------------------------------ layer hist
    def run_hist(self, R, case):
        """E3: BFS over histories of detections.  State (canonical) = for
        each of the two paths: absent | 'stale' | sorted labels it holds."""
        depth = case['depth']
        col = {'fam': 'i64', 'vals': [1, 0, 3]}
        index = [10, 20, 30]
        opts = dict(BASE_OPTS, write_all=case['write_all'],
                    output_fields=case['output_fields'])
        runs = {'F1': [('a', [('min', 1)])],          # row 20 fails
                'F2': [('a', [('max', 2)])],          # row 30 fails
                'F3': [('zz', [('max_nulls', 0)])],   # fails, no record
                'C': [('a', [('min', -5)])]}          # clean
        ops = [(r, s) for r in ('F1', 'F2', 'F3', 'C')
               for s in ('csv', 'parquet')]
        paths = {'csv': os.path.join(self.sandbox, 'det.csv'),
                 'parquet': os.path.join(self.sandbox, 'det.parquet')}
        expect_rows = {'F1': [20], 'F2': [30], 'F3': []}
        if case['write_all']:
            expect_rows = {'F1': [10, 20, 30], 'F2': [10, 20, 30],
                           'F3': [10, 20, 30]}

        def initial():
            self.clean_sandbox()
            st = {'csv': None, 'parquet': None}
            for s in ('csv', 'parquet'):
                if case['init'] in ('stale-' + s, 'stale-both'):
                    with open(paths[s], 'w') as fh:
                        fh.write('Index,n_failures\n99,7\n')
                    st[s] = 'stale'
            return st

        def digest(p):
            if not os.path.exists(p):
                return None
            with open(p, 'rb') as fh:
                return hashlib.sha1(fh.read()).hexdigest()

        def build(hist):
            """Replay a history from scratch; returns (model state, ok)."""
            st = initial()
            for (r, s) in hist:
                fields = OrderedDict((f, [spec_entry(*e) for e in es])
                                     for f, es in runs[r])
                other = 'parquet' if s == 'csv' else 'csv'
                before_other = digest(paths[other])
                res = self.judge(R, [col], ['a'], index, fields, 0.25, None,
                                 opts, s, False, {'hist': hist, 'op': [r, s]},
                                 path=paths[s], keep_file=True)
                R.transitions += 1
                # model step
                if r == 'C':
                    st[s] = None
                else:
                    st[s] = tuple(expect_rows[r])
                # conformance on this transition
                exists = os.path.exists(paths[s])
                if r == 'C':
                    if exists:
                        R.viol('hist:file-survives-clean-run:%s' % s,
                               'stale-file-never-survives-clean-run',
                               {'history': hist, 'init': case['init'],
                                'content': self.peek(paths[s])},
                               {'hist': hist})
                elif res is not None and res[1] is not None:
                    if sorted(res[1]) != sorted(expect_rows[r]):
                        R.viol('hist:file-rows:%s' % s,
                               'output-holds-exactly-failing-records',
                               {'history': hist, 'init': case['init'],
                                'rows': [str(x) for x in res[1]],
                                'expected': expect_rows[r]}, {'hist': hist})
                elif r != 'F3' and not exists:
                    R.viol('hist:no-file-after-failing-run:%s' % s,
                           'output-holds-exactly-failing-records',
                           {'history': hist, 'init': case['init']},
                           {'hist': hist})
                if digest(paths[other]) != before_other:
                    R.viol('hist:other-path-touched:%s' % other,
                           'only-the-named-output-path-is-written',
                           {'history': hist, 'init': case['init']},
                           {'hist': hist})
                R.checked += 1
            return st

        seen = set()
        st0 = initial()
        seen.add(json.dumps(st0, sort_keys=True))
        frontier = [[]]
        d = 0
        while frontier and d < depth:
            nxt = []
            for hist in frontier:
                for op in ops:
                    h2 = hist + [list(op)]
                    st = build(h2)
                    # real canonical state: what is on disk now
                    real = {}
                    for s in ('csv', 'parquet'):
                        if not os.path.exists(paths[s]):
                            real[s] = None
                        else:
                            tab = self.read_file(paths[s], s)
                            if tab is None or 'Index' not in tab.columns:
                                real[s] = 'unlabelled:%d' % (
                                    -1 if tab is None else len(tab))
                            else:
                                real[s] = sorted(int(x) for x in tab['Index'])
                    key = json.dumps(real, sort_keys=True)
                    if key not in seen:
                        seen.add(key)
                        nxt.append(h2)
            frontier = nxt
            d += 1
        R.states = len(seen)


# row / column index shapes: unnamed RangeIndex, unnamed labels, named labels
# (+ named column index), named RangeIndex
INDEX_VARIANTS = [None, [10, 20, 30],
                  {'labels': [10, 20, 30], 'name': 'id', 'colname': 'cols'},
                  {'labels': None, 'name': 'rownum', 'colname': None}]

_I3 = {'fam': 'i64', 'vals': [1, 0, 3]}
_F3 = {'fam': 'f64', 'vals': [None, -1.5, 2.5]}
_S3 = {'fam': 'strobj', 'vals': ['a', None, 'B1']}
_B3 = {'fam': 'boolobj', 'vals': [True, None, False]}
_N3 = {'fam': 'Int64', 'vals': [None, -1, 2]}
_D3 = {'fam': 'dt_ns', 'vals': [None, ['t', 946684800 * 10 ** 9],
                                ['t', 951825600 * 10 ** 9]]}
OPTION_FRAMES = [
    {'cols': [_I3], 'names': ['a'],
     'fields': [('a', [('min', 1), ('max', 2)])]},
    {'cols': [_I3], 'names': ['a'],
     'fields': [('a', [('type', 'real'), ('sign', 'positive')])]},
    {'cols': [_I3], 'names': ['a'],
     'fields': [('a', [('min', -5)])]},                      # clean
    {'cols': [_F3], 'names': ['b c'],
     'fields': [('b c', [('max_nulls', 0), ('min', 0), ('max', 2)])]},
    {'cols': [_S3, _I3], 'names': ['é', 'a'],
     'fields': [('é', [('min_length', 2), ('allowed_values', ['a']),
                       ('rex', ['^B'])]), ('a', [('max', 2)])]},
    {'cols': [_S3, _I3], 'names': ['a', 'min'],
     'fields': [('a', [('no_duplicates', True), ('max_length', 1)]),
                ('zz', [('max_nulls', 0)])]},
    {'cols': [_B3], 'names': ['#x'],
     'fields': [('#x', [('min', True), ('allowed_values', [True])])]},
    {'cols': [_N3], 'names': ['a'],
     'fields': [('a', [('max', 1), ('max_nulls', 0), ('sign', 'positive')])]},
    {'cols': [_D3], 'names': ['a'],
     'fields': [('a', [('min', ['ds', '2000-02-01 00:00:00']),
                       ('max_nulls', 0)])]},
    {'cols': [{'fam': 'i64', 'vals': [1, 1]}], 'names': ['a'],
     'fields': [('a', [('no_duplicates', True)])]},
    {'cols': [{'fam': 'i64', 'vals': []}], 'names': ['a'],
     'fields': [('a', [('type', 'real')])]},
    {'cols': [_I3], 'names': ['a'],
     'fields': [('zz', [('min', 0)])]},              # fails, no record
]

# frames of the 'forms' layer (index into OPTION_FRAMES): two fields with
# nulls, a real column with nulls, a clean run, a failure without a record
FORM_FRAMES = [OPTION_FRAMES[4], OPTION_FRAMES[3], OPTION_FRAMES[2],
               OPTION_FRAMES[11]]
FORM_FRAMES_FULL = [0]             # full option product on this one

CHECK = C06()
