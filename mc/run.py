"""
CLI:  python -m mc.run C07 [--tier quick|thorough] [--layers a,b] [--workers N]
      python -m mc.run C07 --replay FILE [--json]
"""
import argparse
import json
import os
import sys

from mc import engine


def main(argv=None):
    ap = argparse.ArgumentParser()
    ap.add_argument('pid')
    ap.add_argument('--tier', default=os.environ.get('VERIF_TIER') or 'quick',
                    choices=['quick', 'thorough'])
    ap.add_argument('--layers', default=None)
    ap.add_argument('--workers', type=int, default=None)
    ap.add_argument('--budget', type=float, default=None)
    ap.add_argument('--replay', default=None)
    ap.add_argument('--json', action='store_true')
    a = ap.parse_args(argv)
    pid = a.pid.upper()
    if a.replay:
        return replay(pid, a.replay, a.json)
    return engine.explore(pid, a.tier, nworkers=a.workers, budget_s=a.budget,
                          only_layers=a.layers.split(',') if a.layers else None)


def replay(pid, path, as_json):
    os.environ.setdefault('PYTHONHASHSEED', '0')
    with open(path) as f:
        d = json.load(f)
    tier = d.get('tier', 'quick')
    engine.install_tdda_path()
    import warnings
    warnings.filterwarnings('ignore')
    check = engine.load_check(pid)
    if d.get('history'):
        r, herr = engine.run_history(check, tier, d['history'], d['index'])
        if r is None and herr is None:
            herr = 'history replay did not reach case %s' % d['index']
    else:
        r, herr = engine.run_single(check, tier, d['case'])
    if herr is not None:
        print('HARNESS-ERROR:\n' + herr)
        return 2
    sigs = engine.sigs_of(r)
    if as_json:
        print('OBSERVATION ' + json.dumps({'sigs': sigs,
                                           'outcomes': dict(r.outcomes)},
                                          sort_keys=True))
        return 0
    known = engine.load_known(pid)
    print('replay %s: evals=%d outcomes=%s' % (path, r.evals, dict(r.outcomes)))
    rc = 0
    for v in r.violations:
        if v['sig'] in known:
            print('KNOWN-FINDING: property=%s %s [sig=%s]'
                  % (pid, known[v['sig']].get('what', ''), v['sig']))
            continue
        print('VIOLATION property=%s replay=%s' % (pid, os.path.abspath(path)))
        print('  sig=%s clause=%s sub=%s' % (v['sig'], v['clause'],
                                             json.dumps(v['sub'], default=str)))
        print('  detail=%s' % json.dumps(v['detail'], default=str,
                                         ensure_ascii=False)[:2000])
        rc = 1
    if rc == 0:
        print('no violation on this case')
    return rc


if __name__ == '__main__':
    if 'PYTHONHASHSEED' not in os.environ:
        # fixed hash seed for the parent too (replays, set iteration order)
        os.environ['PYTHONHASHSEED'] = '0'
        os.execv(sys.executable, [sys.executable, '-m', 'mc.run'] + sys.argv[1:])
    sys.exit(main())
