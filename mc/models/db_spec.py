"""
Reference model for C08 (SQLite discovery is sound; verification notices a
violating row).

Written from the property statement, tdda_json_file_format.md and the
discover_db_table / verify_db_table docstrings.  Pure Python over plain values
(None | bool | int | float | str); never imports tdda.

Two things are modelled:

  * sat(kind, value, family, col) -> True | False | UNSPEC
        documented meaning of one field constraint on a column given as the
        Python list of its stored values (None = NULL);
  * perturbations(family, constraints, col, tier) -> [Perturbation]
        the menu of the statement ("a value beyond min or max, a shorter or
        longer string, a new category, a duplicate, an extra null, a string no
        expression matches, a value of the wrong sign"), instantiated for the
        constraints that discovery actually produced.  A perturbation is only
        offered with verdict MUST_FAIL when sat() says the documented meaning
        of the targeted constraint is definitely broken by col + [new value]
        under every reading the documentation leaves open; otherwise it is
        returned with verdict UNSPEC (counted, never alarmed on).

  * table_legal(cols, rows, tdef) -> bool
        which data a table DEFINITION admits (PRIMARY KEY single / composite,
        UNIQUE, NOT NULL, unique indexes, WITHOUT ROWID, the INTEGER PRIMARY
        KEY rowid alias), after the SQLite documentation ("CREATE TABLE":
        NULLs are distinct in UNIQUE and - in rowid tables - PRIMARY KEY
        columns; a WITHOUT ROWID table's key columns are NOT NULL).  Used by
        the enumerator to generate only tables that can exist.  Whether a
        PERTURBING row is admitted is not predicted: the driver asks SQLite
        (trusted base) and a rejected or transformed row is not a
        perturbation.

What is NOT modelled (not needed by the statement): which constraints
discovery must produce (that is C07).  The closure half of the property is an
invariant (no exception, zero failures) and needs no model.
"""

import datetime
import math
import re
from fractions import Fraction

UNSPEC = 'unspecified'
MUST_FAIL = 'must-fail'

# declared SQL column type -> coarse family the model reasons in
FAMILY = {
    'INTEGER': 'int', 'REAL': 'real', 'TEXT': 'string', 'VARCHAR': 'string',
    'VARCHAR(10)': 'string', 'BOOLEAN': 'bool', 'DATETIME': 'date',
}

DT_FORMAT = '%Y-%m-%d %H:%M:%S'

# epsilon readings: verify_db_table's docstring says 0, the file-format
# document says 1 %.  A min/max perturbation must be outside both.
EPSILONS = (Fraction(0), Fraction(1, 100))

# SQLite INTEGER is a signed 64-bit integer; a value outside this range is
# stored as REAL, so it is not "an integer beyond min/max" any more
INT64_MIN, INT64_MAX = -2 ** 63, 2 ** 63 - 1


def family_of(decl):
    return FAMILY[decl]


def stored(decl, v):
    """Value as SQLite stores it in a column of that declared type (only the
    conversions the alphabets can trigger)."""
    if v is None:
        return None
    if isinstance(v, bool):
        return int(v)
    return v


# ---- table definitions --------------------------------------------------
#
# tdef (JSON-able dict, every key optional):
#   pk      [col index, ...]    PRIMARY KEY over these columns, in this order
#   pkform  'col' | 'tab'       column constraint (single column only) or
#                               table constraint
#   uniq    [[col index, ...]]  UNIQUE constraints (column constraint when one
#                               column, table constraint otherwise)
#   nn      [col index, ...]    NOT NULL
#   dflt    [col index, ...]    DEFAULT <benign literal of the family>
#   norowid bool                WITHOUT ROWID (needs pk)
#   idx     [[[col, ...], unique?], ...]   CREATE [UNIQUE] INDEX after the table
#   view    bool                CREATE VIEW v AS SELECT * FROM t; tdda is
#                               pointed at v, rows are written to t

DEFAULT_SQL = {'int': '1', 'real': '1.5', 'string': "'a'", 'bool': '1',
               'date': "'2000-01-01 00:00:00'"}


def rowid_alias(cols, tdef):
    """Index of the column that is an alias of the rowid (declared type
    exactly INTEGER, sole PRIMARY KEY column, rowid table), else None.  A
    NULL written to it is replaced by a fresh integer."""
    pk = tdef.get('pk') or []
    if len(pk) == 1 and not tdef.get('norowid') \
            and cols[pk[0]][1].upper() == 'INTEGER':
        return pk[0]
    return None


def notnull_cols(cols, tdef):
    nn = set(tdef.get('nn') or [])
    if tdef.get('norowid'):
        nn.update(tdef.get('pk') or [])
    return nn


def unique_sets(cols, tdef):
    sets = []
    if tdef.get('pk'):
        sets.append(tuple(tdef['pk']))
    for u in tdef.get('uniq') or []:
        sets.append(tuple(u))
    for (ic, uq) in tdef.get('idx') or []:
        if uq:
            sets.append(tuple(ic))
    return sets


def table_legal(cols, rows, tdef):
    """Can a table with this definition hold exactly these rows (as
    written, no value replaced)?"""
    if not tdef:
        return True
    if tdef.get('norowid') and not tdef.get('pk'):
        return False
    alias = rowid_alias(cols, tdef)
    nn = notnull_cols(cols, tdef)
    for r in rows:
        if any(r[i] is None for i in nn):
            return False
        if alias is not None and r[alias] is None:
            return False          # would be replaced by a generated integer
    for key in unique_sets(cols, tdef):
        seen = set()
        for r in rows:
            k = tuple(stored(cols[i][1], r[i]) for i in key)
            if any(v is None for v in k):
                continue          # NULLs are distinct from everything
            if k in seen:
                return False
            seen.add(k)
    return True


def parse_dt(s):
    if isinstance(s, datetime.datetime):
        return s
    if not isinstance(s, str):
        return None
    t = s.replace('T', ' ')
    for fmt in (DT_FORMAT, '%Y-%m-%d %H:%M:%S.%f', '%Y-%m-%d'):
        try:
            return datetime.datetime.strptime(t, fmt)
        except ValueError:
            pass
    return None


def fmt_dt(d):
    return d.strftime(DT_FORMAT)


def nonnull(col):
    return [v for v in col if v is not None]


def _num(v):
    return isinstance(v, (int, float))      # bool counts: false(0) < true(1)


def lengths(s):
    """The two readings of 'length' the documentation allows ("how unicode
    strings are counted is up to the implementation")."""
    return (len(s), len(s.encode('utf-8')))


def rex_match(rex, s):
    """True: s is matched in full by rex under every reading; False: under
    none; UNSPEC: readings differ or rex does not compile."""
    answers = set()
    try:
        for flags in (0, re.DOTALL, re.UNICODE | re.DOTALL):
            c = re.compile(rex, flags)
            m = c.match(s)
            strict = m is not None and m.end() == len(s)
            lax = m is not None              # prefix / '$' before final '\n'
            srch = c.search(s) is not None   # unanchored reading
            answers.add(strict)
            answers.add(lax)
            answers.add(srch)
    except re.error:
        return UNSPEC
    if answers == {True}:
        return True
    if answers == {False}:
        return False
    return UNSPEC


def sat(kind, value, family, col):
    """Documented meaning of a field constraint on the column `col`."""
    if value is None:
        return True                   # a null constraint constrains nothing
    vals = nonnull(col)
    if kind in ('min', 'max'):
        if family == 'string':
            return UNSPEC
        if family == 'date':
            bound = parse_dt(value)
            dv = [parse_dt(v) for v in vals]
            if bound is None or any(d is None for d in dv):
                return UNSPEC
            if kind == 'min':
                return all(d >= bound for d in dv)
            return all(d <= bound for d in dv)
        if not _num(value) or not all(_num(v) for v in vals):
            return UNSPEC
        if any(isinstance(x, float) and not math.isfinite(x)
               for x in [value] + vals):
            return UNSPEC
        # exact rational arithmetic: bounds beyond 2**53 must not be rounded
        bound = Fraction(value)
        exact = [Fraction(v) for v in vals]
        res = set()
        for eps in EPSILONS:
            if kind == 'min':
                lim = bound - eps * abs(bound)
                res.add(all(v >= lim for v in exact))
            else:
                lim = bound + eps * abs(bound)
                res.add(all(v <= lim for v in exact))
        return res.pop() if len(res) == 1 else UNSPEC
    if kind in ('min_length', 'max_length'):
        if family != 'string' or not all(isinstance(v, str) for v in vals):
            return UNSPEC
        res = set()
        for which in (0, 1):
            if kind == 'min_length':
                res.add(all(lengths(v)[which] >= value for v in vals))
            else:
                res.add(all(lengths(v)[which] <= value for v in vals))
        return res.pop() if len(res) == 1 else UNSPEC
    if kind == 'sign':
        if value == 'null':
            return len(vals) == 0
        if family not in ('int', 'real'):
            return UNSPEC             # bool: every integer casts to t/f
        if not all(_num(v) for v in vals):
            return UNSPEC
        test = {
            'positive': lambda v: v > 0,
            'non-negative': lambda v: v >= 0,
            'zero': lambda v: v == 0,
            'non-positive': lambda v: v <= 0,
            'negative': lambda v: v < 0,
        }.get(value)
        if test is None:
            return UNSPEC
        return all(test(v) for v in vals)
    if kind == 'max_nulls':
        return sum(1 for v in col if v is None) <= value
    if kind == 'no_duplicates':
        if value is not True:
            return UNSPEC
        return len(set(vals)) == len(vals)
    if kind == 'allowed_values':
        return all(v in value for v in vals)
    if kind == 'rex':
        if family != 'string' or not all(isinstance(v, str) for v in vals):
            return UNSPEC
        unsure = False
        for v in vals:
            rs = [rex_match(r, v) for r in value]
            if any(r is True for r in rs):
                continue
            if all(r is False for r in rs):
                return False          # also the empty list of expressions
            unsure = True
        return UNSPEC if unsure else True
    if kind == 'type':
        return UNSPEC
    return UNSPEC


class Perturbation(object):
    __slots__ = ('target', 'pid', 'value', 'verdict')

    def __init__(self, target, pid, value, verdict):
        self.target = target      # constraint kind aimed at
        self.pid = pid            # short stable id of the perturbation shape
        self.value = value        # the value to INSERT in that column
        self.verdict = verdict    # MUST_FAIL | UNSPEC

    def as_dict(self):
        return {'target': self.target, 'pid': self.pid, 'value': self.value,
                'verdict': self.verdict}


def _swapcase_new(allowed):
    for a in allowed:
        if isinstance(a, str) and a.swapcase() != a \
                and a.swapcase() not in allowed:
            return a.swapcase()
    return None


def candidates(kind, value, family, col, tier):
    """(pid, new value) proposals for one discovered constraint, straight
    from the statement's menu.  Proposals are filtered by sat() afterwards."""
    thorough = tier == 'thorough'
    vals = nonnull(col)
    out = []
    if kind in ('min', 'max'):
        sgn = -1 if kind == 'min' else 1
        tag = 'min-' if kind == 'min' else 'max+'
        if family == 'int':
            props = [(tag + '1', value + sgn)]
            if abs(value) >= 50:      # also one beyond the 1 % reading
                props.append((tag + '2%',
                              value + sgn * (abs(value) // 50 + 1)))
            if thorough:
                props.append((tag + '7', value + 7 * sgn))
            out.extend((pid, x) for (pid, x) in props
                       if INT64_MIN <= x <= INT64_MAX)
        elif family == 'real':
            props = [(tag + '1.0', value + 1.0 * sgn)]
            if abs(value) >= 50:
                props.append((tag + '2%', value + sgn * abs(value) * 0.02))
            if thorough:
                props.append((tag + '0.5', value + 0.5 * sgn))
            out.extend((pid, x) for (pid, x) in props if math.isfinite(x))
        elif family == 'bool':
            # the only values are false(0) < true(1)
            if kind == 'min' and value in (1, True):
                out.append(('min:false', False))
            if kind == 'max' and value in (0, False):
                out.append(('max:true', True))
        elif family == 'date':
            d = parse_dt(value)
            if d is not None:
                out.append((tag + '1s',
                            fmt_dt(d + sgn * datetime.timedelta(seconds=1))))
                if thorough:
                    out.append((tag + '400d', fmt_dt(
                        d + sgn * datetime.timedelta(days=400))))
    elif kind == 'min_length':
        if isinstance(value, int) and value >= 1:
            out.append(('len-1', 'a' * (value - 1)))
            if thorough and value >= 2:
                out.append(('len=0', ''))
            if thorough and value >= 3:
                out.append(('len-1:unicode', 'é' * ((value - 1) // 2)))
    elif kind == 'max_length':
        if isinstance(value, int):
            out.append(('len+1', 'a' * (value + 1)))
            if thorough:
                out.append(('len+1:unicode', 'é' * (value + 1)))
                out.append(('len+1:quote', "'" * (value + 1)))
                out.append(('len+9', 'ab ' * 3 + 'a' * value))
    elif kind == 'allowed_values':
        if isinstance(value, list):
            for pid, s in (('new:zz', 'zz'), ('new:quote', "n'w"),
                           ('new:empty', '')):
                if s not in value:
                    out.append((pid, s))
            if thorough:
                for pid, s in (('new:unicode', 'É²'),
                               ('new:backslash', 'b\\n'),
                               ('new:dquote', 'x"z'),
                               ('new:percent', '%')):
                    if s not in value:
                        out.append((pid, s))
                s = _swapcase_new(value)
                if s is not None:
                    out.append(('new:swapcase', s))
                for a in value:
                    if isinstance(a, str) and (a + ' ') not in value:
                        out.append(('new:trailing-space', a + ' '))
                        break
    elif kind == 'no_duplicates':
        seen = []
        for v in vals:
            if v not in seen:
                seen.append(v)
        if seen:
            out.append(('dup:first', seen[0]))
            if len(seen) > 1:
                out.append(('dup:last', seen[-1]))
            if thorough:
                for i, v in enumerate(seen[1:-1]):
                    out.append(('dup:mid%d' % i, v))
    elif kind == 'max_nulls':
        out.append(('extra-null', None))
    elif kind == 'rex':
        cands = [('nomatch:tilde', '~~~~~~~'),
                 ('nomatch:words', 'q q q q q'),
                 ('nomatch:quote', "z'z'z'z"),
                 ('nomatch:empty', '')]
        if thorough:
            cands += [('nomatch:backslash', 'z\\z\\z\\z'),
                      ('nomatch:unicode', 'ééééé'),
                      ('nomatch:dquote', 'z"z"z"z'),
                      ('nomatch:trailing-newline',
                       (vals[0] if vals and isinstance(vals[0], str)
                        else 'a') + '\n')]
        out.extend(cands)
    elif kind == 'sign':
        zero = 0 if family == 'int' else 0.0
        one = 1 if family == 'int' else 1.0
        menu = {
            'positive': [('sign:neg', -one), ('sign:zero', zero)],
            'non-negative': [('sign:neg', -one)],
            'zero': [('sign:pos', one), ('sign:neg', -one)],
            'non-positive': [('sign:pos', one)],
            'negative': [('sign:pos', one), ('sign:zero', zero)],
            'null': [('sign:nonnull', one)],
        }
        if family in ('int', 'real'):
            out.extend(menu.get(value, []))
    return out


def perturbations(family, constraints, col, tier='quick'):
    """constraints: {kind: value} as discovered for the column (values from
    the .tdda JSON); col: list of stored values.  Returns Perturbation
    objects; MUST_FAIL ones are the oracle's demands."""
    res = []
    for kind, value in constraints.items():
        if isinstance(value, dict):
            value = value.get('value')
        if value is None or kind == 'type':
            continue
        for pid, new in candidates(kind, value, family, col, tier):
            after = sat(kind, value, family, list(col) + [stored(None, new)])
            if after is True:
                continue              # does not break it: not a perturbation
            # definitely broken under every reading (whatever the state of
            # the constraint before the insert) -> must be reported failed
            verdict = MUST_FAIL if after is False else UNSPEC
            res.append(Perturbation(kind, pid, new, verdict))
    return res
