"""
Reference model for the gentest properties C11 / C12.

Written from the property statements and doc/source/gentest.txt only; it never
imports or calls tdda.  Everything is a pure function of the case description
and of the environment facts (user, host, cwd, home, tmpdir, fake "now").

What the documentation fixes:

* the test script is test_<name>.py, its references live in ref/<name>/
  (STDOUT, STDERR, and a copy of every output file under its base name);
* the script holds test_no_exception, test_exit_code, test_stdout unless
  --no-stdout, test_stderr unless --no-stderr, and one test per output file
  called test_<file name with every non-alphanumeric replaced by '_'>;
* a non-zero exit status without --non-zero-exit makes gentest decline;
* lines may be *excluded* from comparison only when they differed between the
  generation runs (never, for a repeatable command) or hold text that looks
  specific to the machine or moment of generation: host name, user name,
  working directory, home directory, gentest's $TMPDIR, an address of the
  host, or a date / time within the window in which generation ran.
"""
import re

MUST, MUST_NOT, UNSPEC = 'must', 'must-not', 'unspecified'


def sanitize(name):
    return ''.join(c if c.isalnum() else '_' for c in name)


def refuses(case):
    """Documented refusal: the command's status is non-zero and the user did
    not pass --non-zero-exit."""
    return case.get('status', 0) != 0 and not case.get('nonzero')


def expected_tests(case, basenames):
    """-> (tests, names_ok, groups)

    tests: {documented test method name: guard} for every guard whose test
    name the documentation fixes; guard = ('exception',) ('status',)
    ('stdout',) ('stderr',) or ('file', i).
    groups: {'test_<sanitised>': [guards]} for guards whose documented names
    coincide (same base name in two directories, names that differ only in
    non-alphanumerics, a file called like a stream test).  How the generator
    tells those apart is not documented: any test whose name starts with the
    group's prefix is a candidate for every member, but there must be one
    test per member (see expected_count) and each member's change must be
    reported by a test of its own.
    names_ok: no such group exists."""
    wanted = [('test_no_exception', ('exception',)),
              ('test_exit_code', ('status',))]
    if not case.get('no_stdout'):
        wanted.append(('test_stdout', ('stdout',)))
    if not case.get('no_stderr'):
        wanted.append(('test_stderr', ('stderr',)))
    for i, bn in enumerate(basenames):
        wanted.append(('test_' + sanitize(bn), ('file', i)))
    byname = {}
    for t, gd in wanted:
        byname.setdefault(t, []).append(gd)
    tests = dict((t, g[0]) for t, g in byname.items() if len(g) == 1)
    groups = dict((t, g) for t, g in byname.items() if len(g) > 1)
    # a documented name that is a prefix of a group candidate is ambiguous too
    return tests, not groups, groups


def collision_kind(case, basenames):
    """why names are not documented, for violation signatures"""
    kinds = set()
    streams = set(['stdout', 'stderr', 'exit_code', 'no_exception'])
    for i, a in enumerate(basenames):
        if sanitize(a) in streams:
            kinds.add('stream-name')
        for b in basenames[i + 1:]:
            if a == b:
                kinds.add('same-basename')
            elif a.lower() == b.lower():
                kinds.add('case-only')
            elif sanitize(a) == sanitize(b):
                kinds.add('sanitised-equal')
    if 'stream-name' in kinds:
        return 'stream-name'      # dominates: the file is called like a test
    return '+'.join(sorted(kinds)) or '-'


def expected_count(case, basenames):
    return (2 + (0 if case.get('no_stdout') else 1)
            + (0 if case.get('no_stderr') else 1) + len(basenames))


def expected_refs(case, basenames):
    """reference files that must exist in ref/<name>/ (base names); None when
    two outputs share a base name (the name of the second copy is not
    documented)."""
    refs = []
    if not case.get('no_stdout'):
        refs.append('STDOUT')
    if not case.get('no_stderr'):
        refs.append('STDERR')
    low = ['stdout', 'stderr']       # reserved whatever the options say
    for bn in basenames:
        if bn.lower() in low:
            return None
        low.append(bn.lower())
        refs.append(bn)
    return refs


# ------------------------------------------------------- exclusions (C12)

_DIGITS = re.compile(r'\d+')
_TIMEISH = re.compile(r'\d:\d')


def may_be_excluded(line, env):
    """True when the statement allows the generated test to ignore `line`
    (a line of a *repeatable* command): it holds a machine-specific string
    or something that can be read as a date or time inside the generation
    window.  env: dict(user, host, cwd, home, tmpdir, ip, now=(y, m, d)).

    Deliberately generous (anything that is True here is 'unspecified' for
    C12, never an alarm); everything else must be compared."""
    for k in ('user', 'host', 'cwd', 'home', 'tmpdir', 'ip'):
        v = env.get(k)
        if v and v in line:
            return True
    if not re.search(r'\d\d', line):
        return False          # nothing that can be a date or a time
    if _TIMEISH.search(line):
        return True
    y = env['now'][0]
    years = set()
    for dy in (-1, 0, 1):     # the window may straddle a new year
        years.add('%04d' % (y + dy))
        years.add('%02d' % ((y + dy) % 100))
    groups = _DIGITS.findall(line)
    return any(g in years for g in groups)


def only_final_newline_differs(old, new):
    """The comparison conventions of the text assertions do not promise to
    see a final newline (or one trailing empty line) come or go."""
    return old != new and (old + b'\n' == new or new + b'\n' == old)


def line_of(text, pos):
    """index of the line holding byte offset pos"""
    return text.count(b'\n', 0, pos)


def classify_token(tok):
    """coarse class of an alphabet token, for violation signatures"""
    if tok.startswith('@'):
        return 'big'
    if tok.endswith(('_in', '_end')):
        return 'line-boundary-char'
    if tok in ('nul', 'astral'):
        return tok
    return {'tmp': 'tmpdir', 'cwd': 'cwd', 'user': 'user', 'host': 'host',
            'ip': 'host-address', 'home': 'home', 'today': 'date-now', 'now': 'date-now',
            'euro': 'date-now', 'usdate': 'date-now',
            'baddate': 'numtriple', 'version': 'numtriple',
            'olddate': 'numtriple', 'nodate': 'numtriple',
            'time': 'time'}.get(tok, 'text')


_PRIORITY = ['big', 'line-boundary-char', 'nul', 'astral', 'tmpdir', 'cwd', 'home', 'host-address', 'host', 'user', 'date-now', 'time',
             'numtriple']


def leading_class(toks):
    """one class for a whole stream / file: the most environment-dependent
    token class present ('-' when all lines are plain text)"""
    cl = set(classify_token(t) for t in (toks or []))
    for c in _PRIORITY:
        if c in cl:
            return c
    return '-'


def command_class(cmd):
    """features of the command text, for violation signatures"""
    f = []
    if '"""' in cmd:
        f.append('triple-dq')
    if "'''" in cmd:
        f.append('triple-sq')
    if '\\' in cmd:
        f.append('backslash')
    if '%' in cmd:
        f.append('percent')
    if any(ord(c) > 127 for c in cmd):
        f.append('non-ascii')
    return '+'.join(f) or 'plain'
