"""
Reference model for the gentest properties C11 / C12.

Written from the property statements and doc/source/gentest.txt only; it never
imports or calls tdda.  Everything is a pure function of the case description
and of the environment facts (user, host, cwd, home, tmpdir, fake "now").

What the documentation fixes:

* the test script is test_<name>.py, its references live in ref/<name>/
  (STDOUT, STDERR, and a copy of every output file under its base name);
* the script holds test_no_exception, test_exit_code, test_stdout unless
  --no-stdout, test_stderr unless --no-stderr, and one test per output file
  called test_<file name with every non-alphanumeric replaced by '_'>;
* a non-zero exit status without --non-zero-exit makes gentest decline;
* lines may be *excluded* from comparison only when they differed between the
  generation runs (never, for a repeatable command) or hold text that looks
  specific to the machine or moment of generation: host name, user name,
  working directory, home directory, gentest's $TMPDIR, an address of the
  host, or a date / time within the window in which generation ran.
"""
import re

MUST, MUST_NOT, UNSPEC = 'must', 'must-not', 'unspecified'


def sanitize(name):
    return ''.join(c if c.isalnum() else '_' for c in name)


def refuses(case):
    """Documented refusal: the command's status is non-zero and the user did
    not pass --non-zero-exit."""
    return case.get('status', 0) != 0 and not case.get('nonzero')


def expected_tests(case, basenames):
    """{test method name: what it guards}.  For two output files whose
    sanitised names coincide the second name is not documented: None is
    returned for 'unknown names' and the caller only counts tests."""
    tests = {'test_no_exception': ('exception',), 'test_exit_code': ('status',)}
    if not case.get('no_stdout'):
        tests['test_stdout'] = ('stdout',)
    if not case.get('no_stderr'):
        tests['test_stderr'] = ('stderr',)
    names_ok = True
    for i, bn in enumerate(basenames):
        t = 'test_' + sanitize(bn)
        if t in tests:
            names_ok = False
            continue
        tests[t] = ('file', i)
    return tests, names_ok


def expected_count(case, basenames):
    return (2 + (0 if case.get('no_stdout') else 1)
            + (0 if case.get('no_stderr') else 1) + len(basenames))


def expected_refs(case, basenames):
    """reference files that must exist in ref/<name>/ (base names); None when
    two outputs share a base name (the name of the second copy is not
    documented)."""
    refs = []
    if not case.get('no_stdout'):
        refs.append('STDOUT')
    if not case.get('no_stderr'):
        refs.append('STDERR')
    low = [r.lower() for r in refs]
    for bn in basenames:
        if bn.lower() in low:
            return None
        low.append(bn.lower())
        refs.append(bn)
    return refs


# ------------------------------------------------------- exclusions (C12)

_DIGITS = re.compile(r'\d+')
_TIMEISH = re.compile(r'\d:\d')


def may_be_excluded(line, env):
    """True when the statement allows the generated test to ignore `line`
    (a line of a *repeatable* command): it holds a machine-specific string
    or something that can be read as a date or time inside the generation
    window.  env: dict(user, host, cwd, home, tmpdir, ip, now=(y, m, d)).

    Deliberately generous (anything that is True here is 'unspecified' for
    C12, never an alarm); everything else must be compared."""
    for k in ('user', 'host', 'cwd', 'home', 'tmpdir', 'ip'):
        v = env.get(k)
        if v and v in line:
            return True
    if not re.search(r'\d\d', line):
        return False          # nothing that can be a date or a time
    if _TIMEISH.search(line):
        return True
    y = env['now'][0]
    years = set()
    for dy in (-1, 0, 1):     # the window may straddle a new year
        years.add('%04d' % (y + dy))
        years.add('%02d' % ((y + dy) % 100))
    groups = _DIGITS.findall(line)
    return any(g in years for g in groups)


def only_final_newline_differs(old, new):
    """The comparison conventions of the text assertions do not promise to
    see a final newline (or one trailing empty line) come or go."""
    return old != new and (old + b'\n' == new or new + b'\n' == old)


def line_of(text, pos):
    """index of the line holding byte offset pos"""
    return text.count(b'\n', 0, pos)


def classify_token(tok):
    """coarse class of an alphabet token, for violation signatures"""
    return {'tmp': 'tmpdir', 'cwd': 'cwd', 'user': 'user', 'host': 'host',
            'home': 'home', 'today': 'date-now', 'now': 'date-now',
            'euro': 'date-now', 'usdate': 'date-now',
            'baddate': 'numtriple', 'version': 'numtriple',
            'olddate': 'numtriple', 'nodate': 'numtriple',
            'time': 'time'}.get(tok, 'text')


_PRIORITY = ['tmpdir', 'cwd', 'home', 'host', 'user', 'date-now', 'time',
             'numtriple']


def leading_class(toks):
    """one class for a whole stream / file: the most environment-dependent
    token class present ('-' when all lines are plain text)"""
    cl = set(classify_token(t) for t in (toks or []))
    for c in _PRIORITY:
        if c in cl:
            return c
    return '-'
