"""
Reference model for C07: what constraint discovery must report for one
column, written from the property statement and from tdda's documentation
(discover_df / discover_db_table docstrings, tdda_json_file_format.md).

Plain Python over plain Python values; never imports tdda, pandas or numpy.

    expect = discover(kind, values, info)      # what must / must not / may be
    problems, n_unspec = compare(expect, observed_field_dict, ...)

kind    'int' | 'real' | 'bool' | 'string' | 'date' | None (an object column
        without any non-null cell: nothing determines its type)
values  list, None for null; bool / int / float / str; dates as integer
        nanoseconds since the epoch (UTC instant)
info    {'dateonly': bool, 'tzmin': minutes-east-of-UTC or None}

An expectation is one of
    ('eq', v)          the key must be present with exactly this value
    ('absent',)        the key must not be present
    ('set', [..])      present, a duplicate-free list with exactly these items
    ('date', ns, ..)   present, denoting this instant
    ('oneof', [e..])   the statement/documentation leave it open between
                       these expectations (gray zone: counted as unspecified
                       when satisfied, a violation when none is satisfied)
    ('ifpresent', e)   presence is open, but when present it must satisfy e
"""
import datetime
import numbers
import re

TYPES = ('bool', 'int', 'real', 'string', 'date')
KINDS = ('type', 'min', 'max', 'min_length', 'max_length', 'sign',
         'max_nulls', 'no_duplicates', 'allowed_values', 'rex')
MAX_CATEGORIES = 20         # "at most twenty" in the statement
ABSENT = ('absent',)


def sign_class(nonnull):
    """Strongest of positive / non-negative / zero / non-positive / negative
    that every value satisfies; None when the values are of mixed sign."""
    assert nonnull
    if all(v == 0 for v in nonnull):
        return 'zero'
    if all(v > 0 for v in nonnull):
        return 'positive'
    if all(v < 0 for v in nonnull):
        return 'negative'
    if all(v >= 0 for v in nonnull):
        return 'non-negative'
    if all(v <= 0 for v in nonnull):
        return 'non-positive'
    return None


def discover(kind, values, info=None, nrows=None):
    info = info or {}
    n = len(values) if nrows is None else nrows
    nonnull = [v for v in values if v is not None]
    nnull = len(values) - len(nonnull)
    E = {}
    # ---- type: "the field type is the column's type"
    if kind is None:
        E['type'] = ('oneof', [('eq', t) for t in TYPES])
    else:
        E['type'] = ('eq', kind)
    for k in KINDS[1:]:
        E[k] = ABSENT
    if n == 0:
        # "nothing is discovered for data that is absent"; by the letter of
        # the max-nulls clause a null count of 0 could also be reported
        E['max_nulls'] = ('oneof', [ABSENT, ('eq', 0)])
        return E
    # ---- max_nulls: the null count when that is 0 or 1, otherwise absent
    if nnull in (0, 1):
        E['max_nulls'] = ('eq', nnull)
    if not nonnull:
        # all-null column: nothing else; the documentation lists a sign class
        # 'null' ("for all values v: v is null") for numeric fields
        if kind in ('int', 'real', 'bool'):
            E['sign'] = ('oneof', [ABSENT, ('eq', 'null')])
        if kind in ('string', None):
            E['allowed_values'] = ('oneof', [ABSENT, ('set', [])])
        return E
    # ---- min / max: smallest / largest non-null value (non-string fields)
    if kind in ('int', 'real', 'bool'):
        E['min'] = ('eq', min(nonnull))
        E['max'] = ('eq', max(nonnull))
    elif kind == 'date':
        E['min'] = ('date', min(nonnull), info.get('tzmin'),
                    bool(info.get('dateonly')))
        E['max'] = ('date', max(nonnull), info.get('tzmin'),
                    bool(info.get('dateonly')))
    # ---- lengths in characters (string fields)
    if kind == 'string':
        E['min_length'] = ('eq', min(len(s) for s in nonnull))
        E['max_length'] = ('eq', max(len(s) for s in nonnull))
    # ---- sign: strongest class all values share (numeric fields)
    if kind in ('int', 'real'):
        s = sign_class(nonnull)
        E['sign'] = ('eq', s) if s else ABSENT
    elif kind == 'bool':
        # SignConstraint is documented for real, int and bool fields, the
        # statement does not single bool out: presence open, value not
        s = sign_class([int(v) for v in nonnull])
        E['sign'] = ('ifpresent', ('eq', s))
    # ---- no_duplicates: non-real field, > 1 non-null value, all distinct
    if kind != 'real' and len(nonnull) > 1 \
            and len(set(nonnull)) == len(nonnull):
        E['no_duplicates'] = ('eq', True)
    # ---- allowed_values: the distinct non-null strings when <= 20
    if kind == 'string':
        distinct = sorted(set(nonnull))
        if len(distinct) <= MAX_CATEGORIES:
            E['allowed_values'] = ('set', distinct)
    return E


# ------------------------------------------------------------ comparison

_RDT = re.compile(r'^(\d{4})-(\d{2})-(\d{2})'
                  r'(?:[ T](\d{2}):(\d{2}):(\d{2})(?:\.(\d{1,9}))?)?'
                  r'(?:(Z)|([+-])(\d{2}):?(\d{2}))?$')
_EPOCH = datetime.datetime(1970, 1, 1)


def parse_observed_date(x):
    """-> (wall-clock ns since epoch, offset minutes or None, dateonly) or
    None when x is not recognisably a date."""
    if isinstance(x, datetime.datetime):
        off = x.utcoffset()
        naive = x.replace(tzinfo=None)
        d = naive - _EPOCH
        ns = (d.days * 86400 + d.seconds) * 10 ** 9 + d.microseconds * 1000
        ns += getattr(x, 'nanosecond', 0)
        return (ns, None if off is None
                else int(off.total_seconds() // 60), False)
    if isinstance(x, datetime.date):
        d = datetime.datetime(x.year, x.month, x.day) - _EPOCH
        return (d.days * 86400 * 10 ** 9, None, True)
    if not isinstance(x, str):
        return None
    m = _RDT.match(x)
    if not m:
        return None
    try:
        d = datetime.datetime(int(m.group(1)), int(m.group(2)),
                              int(m.group(3)), int(m.group(4) or 0),
                              int(m.group(5) or 0), int(m.group(6) or 0))
    except ValueError:
        return None
    dd = d - _EPOCH
    ns = (dd.days * 86400 + dd.seconds) * 10 ** 9
    ns += int(((m.group(7) or '') + '000000000')[:9])
    off = None
    if m.group(8):
        off = 0
    elif m.group(9):
        off = (int(m.group(10)) * 60 + int(m.group(11)))
        if m.group(9) == '-':
            off = -off
    return (ns, off, m.group(4) is None)


def _same_number(obs, exp, bool_as_int_ok):
    if isinstance(exp, bool):
        if isinstance(obs, bool) or type(obs).__name__ == 'bool_':
            return bool(obs) == exp
        if bool_as_int_ok and isinstance(obs, numbers.Integral):
            return int(obs) == int(exp)
        return False
    if isinstance(obs, bool) or type(obs).__name__ == 'bool_':
        return False
    if isinstance(exp, int):
        return isinstance(obs, numbers.Integral) and int(obs) == exp
    if isinstance(exp, float):
        return isinstance(obs, numbers.Real) and float(obs) == exp
    return False


def satisfies(e, present, obs, bool_as_int_ok=False):
    """-> 'ok' | 'gray' (accepted, but in a gray zone) | 'bad'."""
    tag = e[0]
    if tag == 'absent':
        return 'bad' if present else 'ok'
    if tag == 'ifpresent':
        if not present:
            return 'gray'
        r = satisfies(e[1], present, obs, bool_as_int_ok)
        return r
    if tag == 'oneof':
        for alt in e[1]:
            if satisfies(alt, present, obs, bool_as_int_ok) != 'bad':
                return 'gray'
        return 'bad'
    if not present:
        return 'bad'
    if tag == 'eq':
        exp = e[1]
        if isinstance(exp, (bool, int, float)):
            return 'ok' if _same_number(obs, exp, bool_as_int_ok) else 'bad'
        return 'ok' if (type(obs) is type(exp) and obs == exp) else 'bad'
    if tag == 'set':
        if not isinstance(obs, (list, tuple)):
            return 'bad'
        if any(not isinstance(x, str) for x in obs):
            return 'bad'
        if len(set(obs)) != len(obs):
            return 'bad'
        return 'ok' if set(obs) == set(e[1]) else 'bad'
    if tag == 'date':
        ns_utc, tzmin, dateonly = e[1], e[2], e[3]
        p = parse_observed_date(obs)
        if p is None:
            return 'bad'
        wall, off, _ = p
        if tzmin is None:
            # naive column: the wall-clock value itself
            if off not in (None, 0):
                return 'bad'
            if wall == ns_utc:
                return 'ok' if off is None else 'gray'
            # python datetimes cannot carry nanoseconds: a bound truncated to
            # the microsecond is the best a datetime-valued constraint can do
            if ns_utc % 1000 and wall == ns_utc - ns_utc % 1000:
                return 'gray'
            return 'bad'
        # tz-aware column
        if off is not None:
            return 'ok' if wall - off * 60 * 10 ** 9 == ns_utc else 'bad'
        # reported without an offset: UTC or local wall clock are both
        # defensible readings
        if wall == ns_utc or wall == ns_utc + tzmin * 60 * 10 ** 9:
            return 'gray'
        return 'bad'
    raise ValueError('bad expectation %r' % (e,))


def compare(expect, observed, bool_as_int_ok=False):
    """observed: the discovered dict for one field ({} if the field is
    missing).  -> (problems, n_gray); problem = (clause, key, expectation,
    observed value or '<absent>')."""
    problems = []
    gray = 0
    for k in KINDS:
        e = expect[k]
        present = k in observed
        obs = observed.get(k)
        r = satisfies(e, present, obs, bool_as_int_ok)
        if r == 'gray':
            gray += 1
        elif r == 'bad':
            if not present:
                clause = 'missing'
            elif e[0] == 'absent':
                clause = 'spurious'
            else:
                clause = 'wrong'
            problems.append((clause, k, e, obs if present else '<absent>'))
    for k in observed:
        if k not in KINDS:
            problems.append(('spurious', k, ABSENT, observed[k]))
    return problems, gray


def nontrivial(expect):
    """A column exercises the statistics when something beyond the type is
    required of it."""
    return any(expect[k][0] in ('eq', 'set', 'date') for k in KINDS[1:])
