"""
cli_spec - independent model of the `tdda discover | verify | detect` command
line for flat files (C17).

Written from the documentation only:

  * the help epilogs printed by `tdda help discover|verify|detect`
    (DISCOVER_HELP / VERIFY_HELP / DETECT_HELP and the USAGE blocks),
  * doc/source/constraints.txt ("The tdda Command-line Tool"),
  * the keyword documentation of discover_df / verify_df / detect_df.

It never imports tdda and never uses argparse: the (tiny) grammar of the
documented command line is re-stated here, so that a change in tdda's own
parsers or in its flag -> keyword translation is seen as a disagreement.

interpret(argv, exists) answers, for one command line,

    verdict   'ok'     the documentation gives the invocation a meaning
              'error'  the documentation (or plain necessity) makes it an
                       error: unknown flag, contradictory options, missing
                       input file, missing / underivable constraints file
              'unspecified'  the documentation leaves it open (gray zone)
    why       short reason (error class or gray-zone name)
    input / constraints / output    the files the invocation names
                       (constraints already resolved to <stem>.tdda when
                       implied; output None = not given, '-' = stdout)
    kwargs    keyword arguments of the equivalent library call
    text_unspecified   True when only the *shape of the printed report* is
                       left open (counts and files are still determined)

`exists` is a callable path -> bool supplied by the driver, so the model stays
a pure function: the meaning of a command line depends on nothing but its
tokens and the files it names - not on the format of the input file (no
keyword is derived from it; in particular `repair` is never passed, the
library default applies to CSV and parquet alike) and not on commands that
ran earlier in the same process.
"""

import os

OK, ERROR, UNSPEC = 'ok', 'error', 'unspecified'

# flag -> (canonical option name, arity); arity '*' = zero or more values up
# to the next flag (as documented: "--output-fields FIELD1 FIELD2 ...").
_REPORT_FLAGS = {
    '-a': ('all', 0), '--all': ('all', 0),
    '-f': ('fields', 0), '--fields': ('fields', 0),
    '-7': ('ascii', 0), '--ascii': ('ascii', 0),
    '--epsilon': ('epsilon', 1),
    '-t': ('type_checking', 1), '--type_checking': ('type_checking', 1),
}

GRAMMAR = {
    # "-r or --rex  Include regular expression generation. Disabled by default"
    # "-R or --norex Exclude regular expression generation (the default)"
    'discover': {
        '-r': ('rex', 0), '--rex': ('rex', 0),
        '-R': ('norex', 0), '--norex': ('norex', 0),
        '-7': ('ascii', 0), '--ascii': ('ascii', 0),
    },
    'verify': dict(_REPORT_FLAGS),
    'detect': dict(_REPORT_FLAGS, **{
        '--write-all': ('write_all', 0),
        '--per-constraint': ('per_constraint', 0),
        '--no-per-constraint': ('no_per_constraint', 0),
        '--no-output-fields': ('no_output_fields', 0),
        '--output-fields': ('output_fields', '*'),
        '--interleave': ('interleave', 0),
        '--index': ('index', 0),
        '--int': ('int', 0),
    }),
}
GRAMMAR['disco'] = GRAMMAR['discover']

# number of positional parameters: (min, max)
POSITIONALS = {'discover': (1, 2), 'disco': (1, 2), 'verify': (1, 2),
               'detect': (1, 3)}

# pairs the documentation declares mutually exclusive
CONTRADICTORY = [('per_constraint', 'no_per_constraint'),
                 ('output_fields', 'no_output_fields')]


def is_flag(tok):
    return tok.startswith('-') and tok != '-'


def _is_number(s):
    try:
        float(s)
        return True
    except ValueError:
        return False


def tokenize(cmd, tokens):
    """-> (options {name: [values...] per occurrence}, positionals, problem)"""
    g = GRAMMAR[cmd]
    opts = {}
    pos = []
    i = 0
    n = len(tokens)
    while i < n:
        t = tokens[i]
        if is_flag(t):
            if t not in g:
                return None, None, ('unknown-flag', t)
            name, arity = g[t]
            i += 1
            vals = []
            if arity == '*':
                while i < n and not is_flag(tokens[i]):
                    vals.append(tokens[i])
                    i += 1
            else:
                for _ in range(arity):
                    if i >= n:
                        return None, None, ('missing-value', t)
                    vals.append(tokens[i])
                    i += 1
            opts.setdefault(name, []).append(vals)
        else:
            pos.append(t)
            i += 1
    return opts, pos, None


def implied_constraints(path):
    """'a constraints file with the same path as the input file, but with a
    .tdda extension'"""
    stem, ext = os.path.splitext(path)
    return stem + '.tdda'


def interpret(argv, exists):
    """argv = ['discover'|'verify'|'detect', token, ...]"""
    cmd = argv[0]
    res = {'verdict': OK, 'why': '', 'cmd': cmd, 'input': None,
           'constraints': None, 'constraints_implied': False,
           'output': None, 'kwargs': {}, 'text_unspecified': False}
    if cmd not in GRAMMAR:
        res.update(verdict=UNSPEC, why='not-a-constraints-command')
        return res
    opts, pos, problem = tokenize(cmd, argv[1:])
    if problem:
        kind, tok = problem
        if kind == 'unknown-flag':
            res.update(verdict=ERROR, why='unknown-flag')
        else:
            # a documented flag without its value: not one of the error
            # classes of the statement
            res.update(verdict=UNSPEC, why='flag-without-value')
        return res
    lo, hi = POSITIONALS[cmd]
    if len(pos) < lo or len(pos) > hi:
        res.update(verdict=UNSPEC, why='positional-count')
        return res

    # ---------------------------------------------------------- positionals
    res['input'] = pos[0]
    if cmd in ('discover', 'disco'):
        # "constraints.tdda, if provided, specifies the name of a file to
        #  which the generated constraints will be written.  Can be - (or
        #  missing) to write to standard output."
        res['output'] = pos[1] if len(pos) > 1 else None
    else:
        if len(pos) > 1:
            res['constraints'] = pos[1]
        if cmd == 'detect' and len(pos) > 2:
            res['output'] = pos[2]

    # --------------------------------------------------------------- flags
    for a, b in CONTRADICTORY:
        if a in opts and b in opts:
            if a == 'output_fields' and not any(opts[a]):
                # "--output-fields" with no names means "all original
                # columns": whether that still contradicts
                # --no-output-fields is not said
                res.update(verdict=UNSPEC, why='empty-output-fields+no-output-fields')
                return res
            res.update(verdict=ERROR, why='contradictory:%s+%s' % (a, b))
            return res
    for name, occ in opts.items():
        if len(occ) > 1 and any(occ[0] != o for o in occ[1:]):
            res.update(verdict=UNSPEC, why='option-repeated-with-different-values')
            return res

    kw = {}
    if cmd in ('discover', 'disco'):
        if 'rex' in opts and 'norex' in opts:
            res.update(verdict=UNSPEC, why='rex+norex')
            return res
        kw['inc_rex'] = 'rex' in opts          # disabled by default
    else:
        if 'epsilon' in opts:
            v = opts['epsilon'][0][0]
            if not _is_number(v):
                res.update(verdict=UNSPEC, why='epsilon-not-a-number')
                return res
            kw['epsilon'] = float(v)
        if 'type_checking' in opts:
            v = opts['type_checking'][0][0]
            if v not in ('strict', 'sloppy'):
                res.update(verdict=UNSPEC, why='type_checking-value')
                return res
            kw['type_checking'] = v
        kw['ascii'] = 'ascii' in opts
        if cmd == 'verify':
            # "-a Report all fields, even if there are no failures"
            # "-f Report only fields with failures"; report: 'all' (default)
            if 'all' in opts and 'fields' in opts:
                res['text_unspecified'] = True
                kw['report'] = 'all'
            elif 'fields' in opts:
                kw['report'] = 'fields'
            else:
                kw['report'] = 'all'
        else:
            # detection reports records ("Records passing / failing"); the
            # help also lists -a / -f for detect without saying what they
            # change in a record report
            kw['report'] = 'records'
            if 'all' in opts or 'fields' in opts:
                res['text_unspecified'] = True
            kw['write_all'] = 'write_all' in opts
            # "--per-constraint ... This is set by default."
            # "--no-per-constraint  Disable the --per-constraint flag, so that
            #  the only constraint-based column written out is n_failures"
            kw['per_constraint'] = 'no_per_constraint' not in opts
            # "By default, all of the original columns are written out,
            #  unless you use --output-fields."  Library: [] = all original
            #  columns, None = none (and then the row number is included
            #  automatically), list = those columns.
            #  "--output-fields FIELD1 FIELD2 ...": the names as listed, in
            #  the order listed (the library writes them in that order).
            if 'output_fields' in opts:
                kw['output_fields'] = list(opts['output_fields'][0])
            elif 'no_output_fields' in opts:
                kw['output_fields'] = None
            else:
                kw['output_fields'] = []
            kw['index'] = 'index' in opts
            kw['boolean_ints'] = 'int' in opts
            kw['interleave'] = 'interleave' in opts
            # the frame came from a file: "Rows are usually numbered from 1"
            kw['rownumber_is_index'] = False
    res['kwargs'] = kw

    # ------------------------------------------------------ file existence
    inp = res['input']
    if inp != '-' and not exists(inp):
        res.update(verdict=ERROR, why='missing-input')
        return res
    if cmd in ('verify', 'detect'):
        if res['constraints'] is None:
            if inp == '-':
                # nothing to derive a .tdda path from
                res.update(verdict=ERROR, why='missing-constraints:stdin-no-path')
                return res
            res['constraints'] = implied_constraints(inp)
            res['constraints_implied'] = True
        if not exists(res['constraints']):
            res.update(verdict=ERROR, why='missing-constraints')
            return res
    if cmd == 'detect' and res['output'] is None:
        # pd/detect.py USAGE: "Can be - (or missing) to write to standard
        # output"; constraints.txt makes the output parameter mandatory.
        res.update(verdict=UNSPEC, why='detect-output-omitted')
    return res
