"""
Reference semantics of tdda field constraints (DESIGN 3.2), for C02 and C06.

Written from tdda/constraints/tdda_json_file_format.md and the verify_df /
detect_df / discover_df docstrings; calls no tdda code and no pandas.  Columns
are plain Python lists of None | bool | int | float | str | ('T', ns) where
('T', ns) is an instant in integer nanoseconds.

Three-valued: True (must be reported satisfied), False (must be reported
failed), UNSPEC (the documentation leaves it open: never alarm).

Documented meanings used (file-format document unless noted):
  type            field's type is (one of) the listed type(s).  sloppy
                  (verify_df docstring): type changes attributable to pandas
                  promotion are accepted - a real column all of whose non-null
                  values are whole numbers satisfies int; an object column all
                  of whose non-null values are booleans satisfies bool.
  min / max       closed: all non-null v >= x (<= x); open: strictly; fuzzy
                  (the default): v may pass the bound by up to epsilon*|x|
                  ("a fraction of the constraint value", "modified, as
                  appropriate, for negative values", "constraint values of
                  zero are never fuzzy").
  sign            positive v>0, non-negative v>=0, zero v==0, non-positive
                  v<=0, negative v<0, null: entirely null.
  min_length / max_length   string length in characters.
  max_nulls       number of nulls <= n.
  no_duplicates   each non-null value occurs once.
  allowed_values  every non-null value is in the list.
  rex             every non-null value is matched by at least one expression.
  any kind with value null: satisfied ("completely ignored").
  any kind on a field the data lacks: failed (property statement).
"""
import math
import re
from fractions import Fraction

UNSPEC = 'unspec'

FAM_TYPE = {
    'i64': 'int', 'u8': 'int', 'i64x': 'int', 'Int64': 'int',
    'f64': 'real', 'f64inf': 'real',
    'bool': 'bool', 'boolean': 'bool', 'boolobj': 'bool',
    'strobj': 'string', 'cat': 'string', 'manycat': 'string',
    'dt_s': 'date', 'dt_ms': 'date', 'dt_us': 'date', 'dt_ns': 'date',
    'dttz_utc': 'date', 'dttz_0530': 'date', 'dateobj': 'date',
}
OBJECT_FAMILIES = ('boolobj', 'strobj', 'dateobj', 'manycat')
TZAWARE = ('dttz_utc', 'dttz_0530')


def nonnull(col):
    return [v for v in col if v is not None]


def field_types(fam, col):
    """Set of types the field may be said to have.  An object-dtype column
    without any non-null value carries no type information at all."""
    if fam in OBJECT_FAMILIES and not nonnull(col):
        return set(['string', 'bool', 'date'])
    return set([FAM_TYPE[fam]])


def coarse(fam, col):
    ts = field_types(fam, col)
    if len(ts) > 1:
        return None
    t = list(ts)[0]
    return 'number' if t in ('bool', 'int', 'real') else t


def _is_inf(v):
    return isinstance(v, float) and math.isinf(v)


def _is_whole(v):
    return not _is_inf(v) and float(v) == math.floor(v)


# ---------------------------------------------------------------- min / max

def _cmp_number(v, x, side, precision, epsilon):
    """Is the single non-null number v acceptable against bound x?
    side -1: minimum, +1: maximum."""
    if isinstance(v, float) and math.isnan(v):
        return UNSPEC
    if side > 0:
        # mirror: v <= x  <=>  -v >= -x ; fuzz is symmetric in |x|
        v, x = -v, -x
    if precision == 'closed':
        return v >= x
    if precision == 'open':
        return v > x
    # fuzzy (the default)
    if v >= x:
        return True
    if epsilon is None:
        # the file-format document says the default is 0.01, the docstring 0
        a = _cmp_number(v, x, -1, 'fuzzy', 0)
        b = _cmp_number(v, x, -1, 'fuzzy', 0.01)
        return a if a == b else UNSPEC
    if epsilon == 0 or x == 0:
        return False                     # zero bounds are never fuzzy
    if _is_inf(v) or _is_inf(x):
        # inf*(1 +/- eps) stays inf: only v >= x could have helped
        return False
    V, X, E = Fraction(v), Fraction(x), Fraction(epsilon)
    thr = X - E * abs(X)
    if V == thr:
        # exactly on the fuzzy boundary: "up to epsilon" is inclusive, but
        # only judged where the float arithmetic is exact
        try:
            exact = (Fraction(float(thr)) == thr and abs(X) < 2 ** 52
                     and epsilon in (0.25, 0.5))
        except OverflowError:
            exact = False
        return True if exact else UNSPEC
    scale = max(abs(thr), abs(V))
    if abs(V - thr) <= max(scale * Fraction(1, 10 ** 9),
                           Fraction(1, 10 ** 290)):
        return UNSPEC                    # float rounding territory
    return V > thr


def _cmp_date(v_ns, x_ns, side, precision, epsilon):
    """Dates: a tolerance proportional to a date is meaningless and the
    precision vocabulary is documented for real fields; so on/inside the bound
    is satisfied, strictly outside is failed when no tolerance can apply, and
    the rest is left open."""
    d = (v_ns - x_ns) * (-1 if side > 0 else 1)      # >= 0 means inside
    if 0 < abs(d) < 1000:
        return UNSPEC            # bounds cannot express sub-microseconds
    if d > 0:
        return True
    if d == 0:
        return UNSPEC if precision == 'open' else True
    # outside
    if precision in ('closed', 'open'):
        return False
    if epsilon == 0:
        return False
    return UNSPEC


def _cmp_string(v, x, side, precision, epsilon):
    inside = (v >= x) if side < 0 else (v <= x)
    if v == x:
        return UNSPEC if precision == 'open' else True
    if inside:
        return True
    if precision in ('closed', 'open') or epsilon == 0:
        return False
    return UNSPEC


def value_ok_minmax(v, bound, side, fam, precision, epsilon):
    """One non-null value against a bound (class, value)."""
    bclass, x = bound
    if isinstance(v, tuple):
        vclass = 'date'
    elif isinstance(v, str):
        vclass = 'string'
    else:
        vclass = 'number'
    if vclass == 'number' and bclass == 'number':
        return _cmp_number(v, x, side, precision, epsilon)
    if vclass == 'date' and bclass in ('date', 'date-aware'):
        aware_col = fam in TZAWARE
        if aware_col != (bclass == 'date-aware'):
            return UNSPEC        # naive against aware: no defined order
        return _cmp_date(v[1], x, side, precision, epsilon)
    if vclass == 'string' and bclass == 'string':
        return _cmp_string(v, x, side, precision, epsilon)
    return UNSPEC                # bound of another coarse type: gray zone


def _all3(results):
    """Conjunction over non-null values, three-valued."""
    res = True
    for r in results:
        if r is False:
            return False
        if r == UNSPEC:
            res = UNSPEC
    return res


# --------------------------------------------------------------------- sat

def sat(kind, value, col, fam, type_checking='sloppy', epsilon=0,
        precision=None, present=True):
    """Verdict the documentation requires for one constraint on one field.
    value: for min/max a (class, value) pair (verify_alphabet.py_bound),
    otherwise the plain constraint value."""
    isnull = (value is None) or (kind in ('min', 'max')
                                 and value[0] == 'null')
    if not present:
        return UNSPEC if isnull else False
    if isnull:
        return True
    nn = nonnull(col)
    tc = type_checking or 'sloppy'

    if kind == 'type':
        allowed = list(value) if isinstance(value, (list, tuple)) else [value]
        ts = field_types(fam, col)
        if ts <= set(allowed):
            return True
        if tc == 'strict':
            return False if not (ts & set(allowed)) else UNSPEC
        # sloppy
        if len(ts) > 1:
            # all-null object column
            if 'bool' in allowed:
                return True     # object column, no non-null that is not bool
            return False if not (ts & set(allowed)) else UNSPEC
        t = list(ts)[0]
        if t == 'real' and 'int' in allowed:
            if any(not _is_inf(v) and not _is_whole(v) for v in nn):
                return False
            if any(_is_inf(v) for v in nn):
                return UNSPEC
            return True
        if t == 'real' and 'bool' in allowed:
            return UNSPEC
        if 'bool' in allowed and fam in OBJECT_FAMILIES:
            return all(isinstance(v, bool) for v in nn)
        if 'bool' in allowed and t == 'string':
            # categorical: not an "object field"; strings are not booleans
            return False if nn else UNSPEC
        return False

    if kind in ('min', 'max'):
        side = -1 if kind == 'min' else 1
        return _all3(value_ok_minmax(v, value, side, fam, precision, epsilon)
                     for v in nn)

    if kind == 'sign':
        if coarse(fam, col) != 'number':
            return UNSPEC
        return _all3(_sign_ok(v, value) for v in nn)

    if kind in ('min_length', 'max_length'):
        if field_types(fam, col) != set(['string']):
            return UNSPEC
        if kind == 'min_length':
            return all(len(v) >= value for v in nn)
        return all(len(v) <= value for v in nn)

    if kind == 'max_nulls':
        if value < 0:
            return UNSPEC
        return (len(col) - len(nn)) <= value

    if kind == 'no_duplicates':
        if value is not True:
            return UNSPEC        # "normally with value True"
        return all(_count(nn, v) == 1 for v in nn)

    if kind == 'allowed_values':
        return all(_in(value, v) for v in nn)

    if kind == 'rex':
        if field_types(fam, col) != set(['string']):
            return UNSPEC
        return _all3(rex_value_ok(v, value) for v in nn)

    raise ValueError(kind)


def _sign_ok(v, sign):
    if isinstance(v, float) and math.isnan(v):
        return UNSPEC
    if sign == 'positive':
        return v > 0
    if sign == 'non-negative':
        return v >= 0
    if sign == 'zero':
        return v == 0
    if sign == 'non-positive':
        return v <= 0
    if sign == 'negative':
        return v < 0
    if sign == 'null':
        return False             # a non-null value in an "entirely null" field
    raise ValueError(sign)


def _count(nn, v):
    return sum(1 for w in nn if w == v)


def _in(values, v):
    return any((w == v) for w in values
               if isinstance(w, str) == isinstance(v, str))


# The documentation says only that a value must be "matched" by one of the
# expressions: it does not say whether the match is anchored, nor under which
# flags the expressions are compiled.  So an answer is definite only when it
# is the same for every reading: whole-string match (-> satisfied) / no match
# anywhere (-> failed), under each of plain, DOTALL, ASCII, ASCII|DOTALL.
_FLAG_READINGS = (0, re.DOTALL, re.ASCII, re.ASCII | re.DOTALL)


def rex_value_ok(s, rexes):
    answers = set()
    for flags in _FLAG_READINGS:
        comp = [re.compile(r, flags) for r in rexes]
        full = False
        for r in comp:
            m = r.match(s)
            if m is not None and m.start() == 0 and m.end() == len(s):
                full = True
                break
        if full:
            answers.add(True)
        elif not any(r.search(s) for r in comp):
            answers.add(False)
        else:
            answers.add(UNSPEC)
    if answers == set([True]):
        return True
    if answers == set([False]):
        return False
    return UNSPEC


# ------------------------------------------------------- per-record flags

NOTFALSE = 'notfalse'      # null value: flag may be true or null, not false


def record_flags(kind, value, col, fam, epsilon=0, precision=None):
    """For a constraint that FAILED: the per-record flags the property
    statement requires, one per row: True | False | NOTFALSE | UNSPEC.
    Returns None when there is nothing to flag at record level that the
    documentation defines (bound of a foreign type, undocumented field
    type for the kind)."""
    nn = nonnull(col)
    if kind == 'type':
        return [False for _ in col]
    if kind == 'max_nulls':
        return [v is not None for v in col]
    out = []
    for v in col:
        if v is None:
            out.append(NOTFALSE)
            continue
        if kind in ('min', 'max'):
            side = -1 if kind == 'min' else 1
            r = value_ok_minmax(v, value, side, fam, precision, epsilon)
        elif kind == 'sign':
            r = _sign_ok(v, value) if coarse(fam, col) == 'number' else UNSPEC
        elif kind == 'min_length':
            r = (len(v) >= value) if isinstance(v, str) else UNSPEC
        elif kind == 'max_length':
            r = (len(v) <= value) if isinstance(v, str) else UNSPEC
        elif kind == 'no_duplicates':
            r = _count(nn, v) == 1
        elif kind == 'allowed_values':
            r = _in(value, v)
        elif kind == 'rex':
            r = rex_value_ok(v, value) if isinstance(v, str) else UNSPEC
        else:
            raise ValueError(kind)
        out.append(r)
    return out


def flag_agrees(model, observed):
    """observed: True | False | None (null flag)."""
    if model == UNSPEC:
        return True
    if model == NOTFALSE:
        return observed is not False
    return observed is model


# ------------------------------------------------------------ aggregation

def totals(verdicts):
    """verdicts: {field: {kind: True|False}} -> (passes, failures,
    {field: (passes, failures)})."""
    per = {}
    P = F = 0
    for f, kinds in verdicts.items():
        p = sum(1 for k, s in kinds.items() if s is True)
        q = sum(1 for k, s in kinds.items() if s is False)
        per[f] = (p, q)
        P += p
        F += q
    return P, F, per
