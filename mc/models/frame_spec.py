"""
Reference model for C05: when must two DataFrames compare as correct?

Independent of tdda and of pandas: frames are plain specs
    [[name, label, [values...], (okind)], ...]
(see mc/c05_alphabet.py) and the answer is three-valued:

    ('pass', [])            the comparison must pass
    ('fail', [reasons])     the comparison must fail (as an assertion failure)
    ('unspec', [reasons])   the statement / documentation does not decide

Written from the property statement and the documentation of
assertDataFramesEqual / check_dataframe:

  * check_types / check_data / check_order select columns of the REFERENCE
    frame (None/True = all, False = none, a list, or a function of the frame);
    check_extra_cols selects columns of the ACTUAL frame.
  * same columns: a reference column selected for the type or the data check
    and absent from the actual frame -> fail; an actual column that is not in
    the reference and is selected by check_extra_cols -> fail.
  * relative column order on the columns selected by check_order that both
    frames have (documentation: "restriction of fields whose (relative) order
    should be compared").  A reference column that the actual frame lacks
    has no position: if it is selected for neither the type nor the data
    check its absence is not a difference of any checked aspect, whether or
    not check_order names it - the relative order of the columns the frames
    share is what is compared.
  * column types on the columns selected by check_types, at the type-matching
    level (strict = same dtype; medium / permissive only decided for the
    clear-cut pairs, everything else is unspecified).
  * rows: both frames are sorted by the sortby columns, then filtered by the
    condition; the numbers of rows must agree.
  * values: on the columns selected by check_data, corresponding cells must be
    equal after rounding to `precision` decimals, null == null.

Gray zones answered 'unspec': category vs `string` dtype (tdda documents that
categoricals are compared as strings); anything but the clear-cut pairs under
medium/permissive; a float within 1% of a rounding tie; precision=None with a
difference below 1e-6 (docstring says "no rounding", the default in the code
is 6); values of different kinds (bool vs number, text vs number); order of
rows with equal sort keys when the two key columns differ; where nulls sort;
a sortby / condition column that is missing from the actual frame but is not
selected for the type or data check (whatever else differs); float32
columns whose values differ by less than 1e-3.

The conditions of the statement are symmetric in the two frames whenever the
frames have the same column names in the same order (every selection then
resolves to the same columns on either side): see `symmetric_point`.
"""
import itertools
import struct
from decimal import Decimal, ROUND_FLOOR

from mc.c05_alphabet import pick, KIND

PASS, FAIL, UNSPEC = 'pass', 'fail', 'unspec'

NUMPY_INT = ('int64', 'int32')
NUMPY_FLOAT = ('float64', 'float32')
NUMERIC_PLAIN = NUMPY_INT + NUMPY_FLOAT + ('bool',)
# numeric / boolean in any representation (numpy or nullable extension)
NUMBERLIKE = NUMPY_INT + NUMPY_FLOAT + ('Int64', 'Int32', 'Float64', 'bool',
                                        'boolean')
STRING_DT = ('str', 'string')
DATETIME = ('datetime64[ns]', 'datetime64[us]')


def okind(col):
    if col[1] == 'object' and len(col) > 3:
        return col[3]
    return KIND[col[1]]


# --------------------------------------------------------------------- types

def type_rel(a, r, level):
    """'match' | 'mismatch' | 'unspec' for actual label a, reference label r."""
    if a == r:
        return 'match'
    pair = set((a, r))
    if level in (None, 'strict'):
        if pair == set(('category', 'string')):
            return 'unspec'
        return 'mismatch'
    # medium / permissive: only the clear-cut pairs
    if pair == set(NUMPY_INT) or pair == set(NUMPY_FLOAT):
        return 'match'                      # bit-width change only
    if level == 'medium':
        if (a in NUMPY_INT and r in NUMPY_FLOAT) or \
                (a in NUMPY_FLOAT and r in NUMPY_INT):
            return 'mismatch'
    if level == 'permissive':
        if a in NUMERIC_PLAIN and r in NUMERIC_PLAIN:
            return 'match'                  # bool / int / float interchange
    # a number / boolean column is not a text or a date column at any level
    for (x, y) in ((a, r), (r, a)):
        if x in NUMBERLIKE and (y in DATETIME or y in STRING_DT):
            return 'mismatch'
    return 'unspec'


# -------------------------------------------------------------------- values

def f32(x):
    return struct.unpack('f', struct.pack('f', x))[0]


def rounded(x, p):
    """x rounded to p decimals as an integer count of units, or None when x
    is within 1% of a unit from a rounding tie."""
    d = Decimal(x).scaleb(p)
    fl = d.to_integral_value(rounding=ROUND_FLOOR)
    frac = d - fl
    if abs(frac - Decimal('0.5')) < Decimal('0.01'):
        return None
    return int(fl) + (1 if frac > Decimal('0.5') else 0)


def cell_equal(a, b, ka, kb, la, lb, prec):
    """True / False / None (unspecified)."""
    if a is None and b is None:
        return True
    if a is None or b is None:
        return False
    if ka != kb:
        if set((ka, kb)) == set(('int', 'float')):
            pass
        else:
            return None
    k = ka
    if k in ('text', 'datetime', 'bool') and ka == kb:
        return a == b
    if ka == 'int' and kb == 'int':
        return a == b
    # at least one float
    if la == 'float32':
        a = f32(a)
    if lb == 'float32':
        b = f32(b)
    if a == b:
        return True
    if 'float32' in (la, lb) and abs(a - b) < 1e-3:
        return None
    if prec is None:
        ra, rb = rounded(a, 6), rounded(b, 6)
        if ra is None or rb is None or ra == rb:
            return None
        return False
    ra, rb = rounded(a, prec), rounded(b, prec)
    if ra is None or rb is None:
        return None
    return ra == rb


# ---------------------------------------------------------------------- rows

def _keycmp_ok(vals):
    kinds = set(type(v) for v in vals if v is not None)
    return (not kinds or kinds <= set((int, float)) or kinds == set((str,))
            or kinds == set((bool,)))


def sorted_orders(frame, keycols, nulls_first):
    """All row permutations of `frame` that are sorted by the key columns
    (ties in any order).  None if the keys cannot be ordered."""
    cols = dict((c[0], c) for c in frame)
    n = len(frame[0][2]) if frame else 0
    keys = []
    for k in keycols:
        if not _keycmp_ok(cols[k][2]):
            return None
    for i in range(n):
        key = []
        for k in keycols:
            v = cols[k][2][i]
            if v is None:
                key.append((0 if nulls_first else 2, 0))
            else:
                key.append((1, v))
        keys.append(tuple(key))
    out = []
    for p in itertools.permutations(range(n)):
        if all(keys[p[i]] <= keys[p[i + 1]] for i in range(n - 1)):
            out.append(p)
    return out


def keep_mask(frame, perm, cond):
    """Rows (positions in the permuted frame) the condition keeps, or None if
    the condition cannot be evaluated on this frame."""
    n = len(perm)
    if cond in (None, 'all'):
        return list(range(n))
    if cond == 'none':
        return []
    if cond == 'dropfirst':
        return list(range(1, n))
    if cond == 'notnull':
        # user's function: rows where column 'a' is not null
        for c in frame:
            if c[0] == 'a':
                return [i for i in range(n) if c[2][perm[i]] is not None]
        return None
    raise ValueError(cond)


def rows_and_values(actual, ref, D, prec, perm_a, perm_r, cond):
    """Verdict of the row-count and value clauses for one pair of orders."""
    ka = keep_mask(actual, perm_a, cond)
    kr = keep_mask(ref, perm_r, cond)
    if ka is None or kr is None:
        return (UNSPEC, ['condition-column-missing'])
    if len(ka) != len(kr):
        return (FAIL, ['rows'])
    acols = dict((c[0], c) for c in actual)
    reasons, unspec = [], []
    for rc in ref:
        name = rc[0]
        if name not in D or name not in acols:
            continue
        ac = acols[name]
        k_a, k_r = okind(ac), okind(rc)
        for (i, j) in zip(ka, kr):
            e = cell_equal(ac[2][perm_a[i]], rc[2][perm_r[j]], k_a, k_r,
                           ac[1], rc[1], prec)
            if e is False:
                reasons.append('value')
            elif e is None:
                unspec.append('value-unspecified')
    if reasons:
        return (FAIL, ['value'])
    if unspec:
        return (UNSPEC, ['value-unspecified'])
    return (PASS, [])


def sort_columns(code, ref_names):
    if code is None:
        return []
    if code == 'first':
        return ref_names[:1]
    if code == 'last':
        return ref_names[-1:]
    if code == 'all':
        return list(ref_names)
    raise ValueError(code)


# ------------------------------------------------------------------- verdict

def verdict(actual, ref, opts):
    """actual, ref: frame specs; opts: option point (c05_alphabet codes).
    Returns (PASS|FAIL|UNSPEC, sorted list of reason tags)."""
    anames = [c[0] for c in actual]
    rnames = [c[0] for c in ref]
    acols = dict((c[0], c) for c in actual)
    rcols = dict((c[0], c) for c in ref)
    T = pick(opts['ct'], rnames)
    D = pick(opts['cd'], rnames)
    O = pick(opts['co'], rnames)
    X = pick(opts['cx'], anames)
    fails, unspec = set(), set()

    # a sort requested on a column the actual frame does not have, and that
    # is selected neither for the type nor for the data check: the request
    # cannot be carried out and nothing says what must happen then
    for k in sort_columns(opts['sort'], rnames):
        if k not in acols and k not in T and k not in D:
            return (UNSPEC, ['sort-column-missing-unchecked'])

    # same columns
    for c in rnames:
        if c not in acols:
            if c in T or c in D:
                fails.add('missing')
            # selected for the order check only (or for nothing): it has no
            # position in the actual frame, so it takes no part in the
            # RELATIVE order of the columns both frames have
    for c in anames:
        if c not in rcols and c in X:
            fails.add('extra')
    # relative order
    o1 = [c for c in anames if c in O and c in rcols]
    o2 = [c for c in rnames if c in O and c in acols]
    if o1 != o2:
        fails.add('order')
    # types
    for c in T:
        if c in acols:
            rel = type_rel(acols[c][1], rcols[c][1], opts['tm'])
            if rel == 'mismatch':
                fails.add('type')
            elif rel == 'unspec':
                unspec.add('type-unspecified')
    # rows and values
    keycols = sort_columns(opts['sort'], rnames)
    cond = opts['cond']
    sub = set()
    if any(k not in acols for k in keycols):
        sub.add((UNSPEC, 'sort-column-missing'))
    elif not actual or not ref:
        # a frame without columns has no rows to speak of
        if actual or ref:
            sub.add((UNSPEC, 'no-columns'))
        else:
            sub.add((PASS, ''))
    else:
        same_keys = bool(keycols) and all(
            acols[k][1] == rcols[k][1] and acols[k][2] == rcols[k][2]
            and len(acols[k]) == len(rcols[k]) for k in keycols)
        for nulls_first in ((False, True) if keycols else (False,)):
            if keycols:
                pa = sorted_orders(actual, keycols, nulls_first)
                pr = sorted_orders(ref, keycols, nulls_first)
            else:
                pa = [tuple(range(len(actual[0][2])))]
                pr = [tuple(range(len(ref[0][2])))]
            if pa is None or pr is None:
                sub.add((UNSPEC, 'sort-keys-unordered'))
                continue
            if same_keys:
                pairs = [(p, p) for p in pa]
            else:
                pairs = [(p, q) for p in pa for q in pr]
            for (p, q) in pairs:
                v, why = rows_and_values(actual, ref, D, opts['prec'], p, q,
                                         cond)
                sub.add((v, why[0] if why else ''))
    kinds = set(v for (v, w) in sub)
    if kinds == set((FAIL,)):
        for (v, w) in sub:
            fails.add(w)
    elif kinds != set((PASS,)):
        if len(kinds) > 1:
            unspec.add('sort-order-dependent')
        for (v, w) in sub:
            if v == UNSPEC:
                unspec.add(w)
    if fails:
        return (FAIL, sorted(fails))
    if unspec:
        return (UNSPEC, sorted(unspec))
    return (PASS, [])


def symmetric_point(actual, ref, opts):
    """True when exchanging the two frames cannot change the verdict the
    statement asks for: same column names in the same order on both sides
    (so check_data / check_types / check_order / check_extra_cols / sortby
    resolve to the same columns whichever frame is the reference) - every
    condition of the statement (same columns, relative order, same types at
    the level, same number of rows, equal values) is then a symmetric
    relation between the two frames."""
    return [c[0] for c in actual] == [c[0] for c in ref]
