# -*- coding: utf-8 -*-
"""
Reference semantics for the rexpy properties (C03 C13 C14 C18) - DESIGN §3.3.

Independent of tdda: uses only the standard `re` module.  Written from the
property statements ("matched in full ... interpreting them as Python regular
expressions", "every example that an explicit option does not discard (nulls;
empties when empties are removed)").

API
---
  FLAGS                       re.UNICODE | re.DOTALL
  compile_rex(rex)            compiled pattern, or None when `rex` is not a
                              valid Python regular expression (or not a str)
  compile_error(rex)          None, or a short message class for the re.error
  fullmatch(rex, s)           True iff rex matches s IN FULL: re.match from
                              position 0 and match.end() == len(s).  (`$`
                              alone would also accept a match that stops
                              before a final newline; that is not "in full".)
                              An invalid rex matches nothing.
  is_anchored(rex)            starts with '^', ends with an unescaped '$'
  is_discarded(s, strip, remove_empties)
                              None -> True; a string that is empty (after
                              stripping, when strip is set) -> remove_empties;
                              anything else -> False
  kept_examples(examples, strip=False, remove_empties=False)
                              the distinct supplied examples that must be
                              matched, in first-seen order.  `examples` may be
                              a list/tuple (None allowed) or a dict
                              {str: freq}; dict entries with freq 0 are not
                              examples.  With strip the ORIGINAL string is
                              kept (the expression must then allow the
                              surrounding whitespace itself).
  kept_weights(examples, strip=False, remove_empties=False)
                              OrderedDict {kept original string: weight}
                              (weight 1 per list occurrence, freq for dicts)
  unmatched(rexes, examples, strip=False, remove_empties=False)
                              kept examples no expression matches in full
  match_vector(rex, strings)  tuple(bool) over `strings`
"""
import re
from collections import OrderedDict

FLAGS = re.UNICODE | re.DOTALL

_cache = {}


def compile_rex(rex):
    if not isinstance(rex, str):
        return None
    try:
        return _cache[rex]
    except KeyError:
        pass
    try:
        import warnings
        with warnings.catch_warnings():
            warnings.simplefilter('ignore')
            c = re.compile(rex, FLAGS)
    except (re.error, RecursionError, OverflowError):
        c = None
    if len(_cache) > 20000:
        _cache.clear()
    _cache[rex] = c
    return c


def compile_error(rex):
    if not isinstance(rex, str):
        return 'not-a-string:%s' % type(rex).__name__
    try:
        import warnings
        with warnings.catch_warnings():
            warnings.simplefilter('ignore')
            re.compile(rex, FLAGS)
        return None
    except re.error as e:
        return 're.error:%s' % (e.msg if hasattr(e, 'msg') else str(e))
    except (RecursionError, OverflowError) as e:
        return type(e).__name__


def fullmatch(rex, s):
    c = compile_rex(rex)
    if c is None:
        return False
    m = c.match(s)
    return m is not None and m.end() == len(s)


def is_anchored(rex):
    if not isinstance(rex, str) or len(rex) < 2:
        return False
    if not rex.startswith('^') or not rex.endswith('$'):
        return False
    body = rex[:-1]
    nback = len(body) - len(body.rstrip('\\'))
    return nback % 2 == 0


def is_discarded(s, strip=False, remove_empties=False):
    if s is None:
        return True
    t = s.strip() if strip else s
    if t == '':
        return bool(remove_empties)
    return False


def kept_weights(examples, strip=False, remove_empties=False):
    out = OrderedDict()
    if isinstance(examples, dict):
        items = list(examples.items())
    else:
        items = [(s, 1) for s in examples]
    for (s, n) in items:
        if n == 0 or is_discarded(s, strip, remove_empties):
            continue
        out[s] = out.get(s, 0) + n
    return out


def kept_examples(examples, strip=False, remove_empties=False):
    return list(kept_weights(examples, strip, remove_empties))


def unmatched(rexes, examples, strip=False, remove_empties=False):
    rexes = list(rexes or [])
    return [s for s in kept_examples(examples, strip, remove_empties)
            if not any(fullmatch(r, s) for r in rexes)]


def match_vector(rex, strings):
    return tuple(fullmatch(rex, s) for s in strings)
