# -*- coding: utf-8 -*-
"""
Reference model for tdda's text comparison (C04, C15) - DESIGN.md 3.4.

Written from the statement of C04 and the documentation of
assertStringCorrect; it never imports or calls tdda.

    "A string or text file checked against a reference file passes exactly
     when, after dropping lines that contain a remove-substring and applying
     the requested per-line stripping, both sides have the same number of
     lines and every remaining pair of lines is equal, or the reference line
     contains an ignore-substring, or the two lines differ only in parts
     matched by an ignore-pattern - or the differing lines are, within the
     permitted number of cases, permutations of each other."

The model is THREE-VALUED.  Wherever the statement can be read in more than
one way the model evaluates every reading and answers

    MUST_PASS   every reading passes
    MUST_FAIL   every reading fails
    UNSPEC      the readings disagree (gray zone - never alarmed on)

Readings that are enumerated:

 * "differ only in parts matched by an ignore-pattern"
     U (strict, sufficient):  the two lines become identical when every match
        of one pattern (found by the ordinary left-to-right scan, or of the
        alternation of all unanchored patterns) is replaced by one marker; or
        both lines are matched in full by one ^...$ pattern.
     O (weakest, necessary):  the lines can be cut into segments such that
        corresponding segments are either the same text or, on each side
        independently, a concatenation of zero or more substrings each fully
        matched by a pattern (so text matched on one side may face nothing on
        the other - the "delete what matches, compare the rest" reading); a
        ^...$ pattern makes the whole line such a segment.
     A pair inside U is excused, a pair outside O is not excused, a pair in
     between may or may not be (both are tried).
     Patterns that can match the empty string, are anchored at one end only, or
     contain context assertions (\\b, look-around, inner ^/$) have no settled
     meaning: a non-identical pair is then always "may or may not".
 * one trailing empty element of a line list may be dropped (list convention:
   "a\\n".split("\\n")) - never, before preprocess, after preprocess, after
   removal, or after stripping;
 * a text's final line terminator either ends the last line or starts a new
   empty one (contents only; see lines_of_text);
 * the permitted number of permutation cases is compared with the number of
   unexcused pairs, or with the number of all differing pairs.

Fixed by the statement (one reading only): removal happens on both sides and
before the count comparison; stripping applies to both sides and the WHOLE
comparison - patterns, substrings and the permutation test - sees stripped
lines; the ignore-substring is looked for in the reference line only; a
differing pair can only be forgiven as a permutation when there are at least
as many permitted cases as unexcused pairs and the unexcused actual lines are
a rearrangement of the unexcused reference lines.
"""
import functools
import itertools
import re

MUST_PASS = 'must-pass'
MUST_FAIL = 'must-fail'
UNSPEC = 'unspecified'

EQUAL = 'equal'
EXCUSED = 'excused'        # certainly excused (ignore-substring or U)
MAYBE = 'maybe'            # between U and O
UNEXCUSED = 'unexcused'    # outside O

_MARK = '\x00'
TRAILING_STAGES = (None, 'before-preprocess', 'after-preprocess',
                   'after-removal', 'after-strip')


class Options(object):
    __slots__ = ('lstrip', 'rstrip', 'ignore_substrings', 'ignore_patterns',
                 'remove_lines', 'max_permutation_cases', 'preprocess')

    def __init__(self, lstrip=False, rstrip=False, ignore_substrings=None,
                 ignore_patterns=None, remove_lines=None,
                 max_permutation_cases=0, preprocess=None):
        self.lstrip = bool(lstrip)
        self.rstrip = bool(rstrip)
        self.ignore_substrings = tuple(ignore_substrings or ())
        self.ignore_patterns = tuple(ignore_patterns or ())
        self.remove_lines = tuple(remove_lines or ())
        self.max_permutation_cases = int(max_permutation_cases or 0)
        self.preprocess = preprocess       # callable(list) -> list, or None


# ------------------------------------------------------------------ lines

def strip_line(s, lstrip, rstrip):
    if lstrip and rstrip:
        return s.strip()
    if lstrip:
        return s.lstrip()
    if rstrip:
        return s.rstrip()
    return s


def lines_of_text(text):
    """Candidate line lists of a text.  Line terminators: \\n, \\r\\n, \\r.
    Reading 1: a final terminator ends the last line.  Reading 2: it starts
    a new, empty, last line.  (The empty text has no lines under both.)"""
    t = text.replace('\r\n', '\n').replace('\r', '\n')
    if t == '':
        return [[]]
    parts = t.split('\n')
    if parts[-1] == '':
        return [parts[:-1], parts]
    return [parts]


# --------------------------------------------------------------- patterns

_CONTEXT = re.compile(r'\\[bBAZ]|\(\?[=!<]')


@functools.lru_cache(maxsize=None)
def _pattern(p):
    """(kind, compiled) with kind in anchored / unanchored / unsettled."""
    try:
        c = re.compile(p)
    except re.error:
        return ('unsettled', None)
    a, z = p.startswith('^'), p.endswith('$') and not p.endswith('\\$')
    inner = p[1 if a else 0: len(p) - 1 if z else len(p)]
    if a != z or _CONTEXT.search(inner) or re.search(r'(?<!\\)[\^$]', inner):
        return ('unsettled', c)
    if c.match('') is not None:
        return ('unsettled', c)
    return ('anchored' if a else 'unanchored', c)


def _full(c, s):
    m = c.match(s)
    return m is not None and m.end() == len(s)


def _weak_equiv(a, e, un):
    """Reading O for unanchored patterns: a and e are equal after deleting,
    on each side independently, some non-overlapping substrings each fully
    matched by one of the compiled patterns `un`."""
    na, ne = len(a), len(e)

    def skips(s, n):
        # skips[i] = end positions k > i such that s[i:k] is fully matched
        out = []
        for i in range(n):
            ks = []
            for k in range(i + 1, n + 1):
                seg = s[i:k]
                if any(_full(c, seg) for c in un):
                    ks.append(k)
            out.append(ks)
        out.append([])
        return out

    sa, se = skips(a, na), skips(e, ne)
    seen = set()
    stack = [(0, 0)]
    while stack:
        i, j = stack.pop()
        if (i, j) in seen:
            continue
        seen.add((i, j))
        if i == na and j == ne:
            return True
        if i < na and j < ne and a[i] == e[j]:
            stack.append((i + 1, j + 1))
        for k in sa[i]:
            stack.append((k, j))
        for k in se[j]:
            stack.append((i, k))
    return False


def _match_lengths(c, s):
    return [m.end() - m.start() for m in c.finditer(s)]


@functools.lru_cache(maxsize=None)
def pattern_relation(a, e, patterns):
    """How ignore-patterns relate two different lines: (relation, how) with
    relation in EXCUSED (inside U) / MAYBE / UNEXCUSED (outside O)."""
    if not patterns:
        return (UNEXCUSED, None)
    kinds = [_pattern(p) for p in patterns]
    if any(k == 'unsettled' for (k, c) in kinds):
        return (MAYBE, 'unsettled-pattern')
    anch = [c for (k, c) in kinds if k == 'anchored']
    un = [c for (k, c) in kinds if k == 'unanchored']
    # ---- U
    for c in anch:
        if _full(c, a) and _full(c, e):
            return (EXCUSED, 'whole-line-pattern')
    cands = list(un)
    if len(un) > 1:
        cands.append(re.compile('|'.join(
            '(?:%s)' % p for p, (k, c) in zip(patterns, kinds)
            if k == 'unanchored')))
    for c in cands:
        if _MARK in a or _MARK in e:
            break
        if c.sub(_MARK, a) == c.sub(_MARK, e):
            same = _match_lengths(c, a) == _match_lengths(c, e)
            return (EXCUSED, 'tokens-same-length' if same
                    else 'tokens-different-length')
    # ---- O
    for c in anch:
        # the whole line is an ignorable part on either side
        fa, fe = _full(c, a), _full(c, e)
        if (fa and (e == '' or _weak_equiv('', e, un))) or \
                (fe and (a == '' or _weak_equiv(a, '', un))):
            return (MAYBE, 'whole-line-one-side')
    if un and _weak_equiv(a, e, un):
        return (MAYBE, 'weak-decomposition')
    return (UNEXCUSED, None)


def classify_pair(a, e, ignore_substrings, ignore_patterns):
    """(class, how) for one pair of already stripped lines."""
    if a == e:
        return (EQUAL, None)
    for s in ignore_substrings:
        if s in e:
            return (EXCUSED, 'ignore-substring')
    return pattern_relation(a, e, ignore_patterns)


# ------------------------------------------------------------ one reading

class Reading(object):
    """The comparison under one placement of the trailing-empty rule."""
    __slots__ = ('stage', 'raw_actual', 'raw_expected', 'actual', 'expected',
                 'removed_actual', 'removed_expected', 'preprocess_changed',
                 'classes', 'hows', 'outcomes')


def _drop_trailing(xs):
    return xs[:-1] if xs and xs[-1] == '' else xs


@functools.lru_cache(maxsize=1 << 18)
def _one_side(lines, preprocess, remove_lines, lstrip, rstrip, stage):
    """lines: tuple.  Returns (raw kept lines, stripped kept lines, number
    of removed lines, preprocess changed something, an empty line was seen
    at some stage - only then can the trailing-empty stages differ)."""
    xs = list(lines)
    empties = '' in xs
    if stage == 'before-preprocess':
        xs = _drop_trailing(xs)
    changed = False
    if preprocess is not None:
        before = list(xs)
        xs = list(preprocess(list(xs)))
        changed = xs != before
        empties = empties or '' in xs
    if stage == 'after-preprocess':
        xs = _drop_trailing(xs)
    kept, nremoved = [], 0
    for s in xs:
        if any(r in s for r in remove_lines):
            nremoved += 1
        else:
            kept.append(s)
    if stage == 'after-removal':
        kept = _drop_trailing(kept)
    raw = kept
    norm = [strip_line(s, lstrip, rstrip) for s in raw]
    empties = empties or '' in norm
    if stage == 'after-strip' and norm and norm[-1] == '':
        norm = norm[:-1]
        raw = raw[:-1]
    return tuple(raw), tuple(norm), nremoved, changed, empties


@functools.lru_cache(maxsize=1 << 18)
def _compare(actual, expected, ignore_substrings, ignore_patterns, mpc):
    """(classes, hows, outcomes) for two tuples of stripped lines; outcomes
    maps each possible result 'pass' / 'fail' to a reason tag."""
    if len(actual) != len(expected):
        return ((), (), {'fail': 'line-count'})
    ch = [classify_pair(a, e, ignore_substrings, ignore_patterns)
          for a, e in zip(actual, expected)]
    classes = tuple(c for (c, h) in ch)
    hows = tuple(h for (c, h) in ch)
    outcomes = {}
    differing = [i for i, c in enumerate(classes) if c != EQUAL]
    maybe = [i for i in differing if classes[i] == MAYBE]
    definite = [i for i in differing if classes[i] == UNEXCUSED]
    for r in range(len(maybe) + 1):
        for forgiven in itertools.combinations(maybe, r):
            unexc = sorted(definite + [i for i in maybe if i not in forgiven])
            if not unexc:
                outcomes.setdefault('pass', 'all-equal-or-excused'
                                    if differing else 'all-equal')
                continue
            perm = sorted(actual[i] for i in unexc) == \
                sorted(expected[i] for i in unexc)
            # two readings of "within the permitted number of cases":
            # the unexcused pairs, or all differing pairs, are counted
            for count in (len(unexc), len(differing)):
                if perm and count <= mpc:
                    outcomes.setdefault('pass', 'permutation')
                elif perm:
                    outcomes.setdefault('fail', 'too-many-permutation-cases')
                elif count <= mpc:
                    outcomes.setdefault('fail', 'not-a-permutation')
                else:
                    outcomes.setdefault('fail', 'unexcused-difference')
    return (classes, hows, outcomes)


def _whitespace_sensitive(opts):
    if not (opts.lstrip or opts.rstrip):
        return False
    return any(s != s.strip() or s == ''
               for s in opts.ignore_substrings + opts.remove_lines)


class Result(object):
    __slots__ = ('verdict', 'why', 'readings', 'canonical')

    def __init__(self, verdict, why, readings):
        self.verdict = verdict
        self.why = why
        self.readings = readings
        # the comparison is "canonical" when every reading normalises both
        # sides to the same line lists and no pair is in the U..O gap
        # (readings that differ only in a common run of trailing empty
        # lines on both sides - equal pairs - count as the same)
        self.canonical = None
        if readings:
            def key(r):
                a, e = r.actual, r.expected
                while a and e and a[-1] == '' and e[-1] == '':
                    a, e = a[:-1], e[:-1]
                return (a, e)
            best = min(readings, key=lambda r: len(r.actual))
            k0 = key(best)
            if all(key(r) == k0 for r in readings) \
                    and MAYBE not in best.classes:
                self.canonical = best

    def unexcused_pairs(self):
        """Normalised (actual line, reference line) pairs the model holds to
        be real differences, in order; None when not canonical or when the
        line counts differ (no alignment is defined then)."""
        r = self.canonical
        if r is None or len(r.actual) != len(r.expected):
            return None
        return [(r.actual[i], r.expected[i])
                for i, c in enumerate(r.classes) if c == UNEXCUSED]

    def exclusion_took_effect(self):
        """True / False / None (not canonical): some line was removed, some
        differing pair was excused, or preprocess changed a side."""
        r = self.canonical
        if r is None:
            return None
        return bool(r.removed_actual or r.removed_expected
                    or r.preprocess_changed or EXCUSED in r.classes)


def _readings(actual, expected, opts):
    ta, te = tuple(actual), tuple(expected)
    readings = []
    seen = set()
    for stage in TRAILING_STAGES:
        ra, na, rma, pa, ea = _one_side(ta, opts.preprocess, opts.remove_lines,
                                        opts.lstrip, opts.rstrip, stage)
        re_, ne, rme, pe, ee = _one_side(te, opts.preprocess,
                                         opts.remove_lines, opts.lstrip,
                                         opts.rstrip, stage)
        key = (na, ne, ra, re_)
        if key not in seen:
            seen.add(key)
            r = Reading()
            r.stage = stage
            r.raw_actual, r.raw_expected = ra, re_
            r.actual, r.expected = na, ne
            r.removed_actual, r.removed_expected = rma, rme
            r.preprocess_changed = bool(pa or pe)
            r.classes, r.hows, r.outcomes = _compare(
                na, ne, opts.ignore_substrings, opts.ignore_patterns,
                opts.max_permutation_cases)
            readings.append(r)
        if stage is None and not ea and not ee:
            break           # no empty line anywhere: the stages coincide
    return readings


def _verdict(readings):
    results = set()
    for r in readings:
        results.update(r.outcomes)
    if len(results) == 1:
        if 'pass' in results:
            return Result(MUST_PASS, readings[0].outcomes['pass'], readings)
        return Result(MUST_FAIL, readings[0].outcomes['fail'], readings)
    return Result(UNSPEC, 'readings-disagree', readings)


def evaluate(actual, expected, opts):
    """Three-valued verdict for two lists of lines under opts."""
    if _whitespace_sensitive(opts):
        return Result(UNSPEC, 'whitespace-in-substring-with-strip', [])
    return _verdict(_readings(actual, expected, opts))


def evaluate_texts(actual_text, expected_text, opts):
    """Three-valued verdict for two texts (string or file contents): both
    line-splitting readings (applied to both sides alike), and all the
    trailing-empty readings, must agree."""
    if _whitespace_sensitive(opts):
        return Result(UNSPEC, 'whitespace-in-substring-with-strip', [])
    readings = []
    las, les = lines_of_text(actual_text), lines_of_text(expected_text)
    # the same convention about a final terminator is applied to both sides
    for k in range(max(len(las), len(les))):
        readings.extend(_readings(las[min(k, len(las) - 1)],
                                  les[min(k, len(les) - 1)], opts))
    return _verdict(readings)


def evaluate_lines_text(actual_lines, expected_text, opts):
    """Three-valued verdict for an actual given as a SEQUENCE of lines (list
    or tuple handed to the string entry point) against a reference text: the
    sequence is taken as it is (with the trailing-empty readings of
    `evaluate`), the text under both line-splitting readings."""
    if _whitespace_sensitive(opts):
        return Result(UNSPEC, 'whitespace-in-substring-with-strip', [])
    readings = []
    for le in lines_of_text(expected_text):
        readings.extend(_readings(list(actual_lines), le, opts))
    return _verdict(readings)


def pass_reasons(result):
    """For a MUST_PASS result: sorted tags of what the pass relies on (used
    by the checks to build narrow signatures)."""
    tags = set()
    for r in result.readings[:1]:
        for i, h in enumerate(r.hows):
            if h:
                tags.add(h)
            if r.classes[i] != EQUAL and (r.raw_actual[i] != r.actual[i] or
                                          r.raw_expected[i] != r.expected[i]):
                tags.add('stripped-line')
        if r.outcomes.get('pass') == 'permutation':
            tags.add('permutation')
    return sorted(tags)
