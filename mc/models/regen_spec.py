"""
regen_spec - reference model for property C10 (plain Python, never imports tdda).

Written from the property statement and from tdda's documentation:

  * ReferenceTest.set_regeneration(kind=None, regenerate=True): "Set the
    regeneration flag for a particular kind of reference file, globally ...
    If the regenerate flag is set to True, then the framework will regenerate
    reference data of that kind, rather than comparing.  All of the
    regeneration flags are set to False by default."
  * referencetestcase module text: --write-all / -W regenerate every kind;
    --write / -w take the kinds that follow, as separate arguments or as one
    comma-separated argument ("--write table graph", "--write table,graph");
    --wquiet rewrites quietly; -1 / --tagged, -0 / --istagged select tests.
  * referencepytest: --write-all, --write k1 k2 / k1,k2, --wquiet.

Everything is three-valued: True (must), False (must not), None (the statement
and the documentation leave it open -> never alarm).

The model state is  (table, quiet, files)
    table : dict  kind -> bool     (kind None = the "all kinds" flag)
    quiet : bool
    files : dict  reference name -> content id (None = absent)
"""

ALL = None            # key of the "every kind" flag in the table
UNSPEC = None


# ----------------------------------------------------------------- the table

def table_set(table, kind, flag):
    t = dict(table)
    t[kind] = bool(flag)
    return t


def should_regen(table, kind):
    """Is an assertion of this kind in regeneration mode?

    kind None  = an assertion that names no kind (for the DataFrame assertion
                 any default kind that was never mentioned in the table).
    True / False / None (unspecified).

      - a flag set for exactly this kind decides (True: selected; False: the
        flag of that kind is off)...
      - ...except that an explicit False for the kind combined with a True
        "all kinds" flag is a conflict the documentation does not resolve
        ("-W turns on regeneration for all kinds" against "the flag of this
        kind is False") -> unspecified;
      - otherwise the "all kinds" flag decides, default False.
    """
    allflag = bool(table.get(ALL, False))
    if kind is not ALL and kind in table:
        if table[kind]:
            return True
        return UNSPEC if allflag else False
    return allflag


def table_key(table):
    """Canonical, hashable, JSON-able form."""
    return tuple(sorted(((('*' if k is None else str(k)), bool(v))
                         for k, v in table.items())))


# ---------------------------------------------------------- unittest command line

WRITE_ALL = ('-W', '--W', '--write-all')
WRITE = ('-w', '--w', '--write')
QUIET = ('--wquiet',)
TAGGED_LONG = ('--tagged',)
CHECK_LONG = ('--istagged',)


class ArgvMeaning(object):
    __slots__ = ('all', 'kinds', 'quiet', 'tagged', 'check', 'unspecified',
                 'why')

    def __init__(self):
        self.all = False        # every kind selected
        self.kinds = []         # named kinds, in order
        self.quiet = False
        self.tagged = False
        self.check = False
        self.unspecified = False
        self.why = None


def parse_unittest_argv(tokens):
    """Meaning of the tdda options in argv[1:] (tokens).  Anything the
    documentation does not cover makes the result `unspecified`."""
    m = ArgvMeaning()
    i = 0
    n = len(tokens)
    count = {'all': 0, 'quiet': 0, 'tagged': 0, 'check': 0}

    def once(what):
        # "the same option given twice (in either spelling)" is not covered
        # by the documentation
        count[what] += 1
        if count[what] > 1:
            m.unspecified = True
            m.why = 'repeated-' + what
    while i < n:
        t = tokens[i]
        if t in WRITE:
            rest = tokens[i + 1:]
            if not rest:
                m.unspecified = True     # documented both "all" and "raises"
                m.why = 'write-without-kinds'
                return m
            for r in rest:
                if r.startswith('-'):
                    m.unspecified = True     # an option after the kind list
                    m.why = 'option-after-kinds'
                for k in r.split(','):
                    if k == '':
                        m.unspecified = True
                        m.why = 'empty-kind'
                    else:
                        m.kinds.append(k)
            return m
        if t in WRITE_ALL:
            m.all = True
            once('all')
        elif t in QUIET:
            m.quiet = True
            once('quiet')
        elif t in TAGGED_LONG:
            m.tagged = True
            once('tagged')
        elif t in CHECK_LONG:
            m.check = True
            once('check')
        elif t.startswith('--'):
            pass                              # some other long option
        elif t.startswith('-') and len(t) > 1:
            # a cluster of single-letter options: W, 1, 0 are tdda's
            for ch in t[1:]:
                if ch == 'k':
                    # unittest's -k takes a value; the rest of the argument
                    # is that value (a test-name pattern), not options
                    break
                if ch == 'W':
                    m.all = True
                    once('all')
                elif ch == '1':
                    m.tagged = True
                    once('tagged')
                elif ch == '0':
                    m.check = True
                    once('check')
        else:
            # a positional argument (test name): tdda options after it are
            # not covered by the documentation
            for r in tokens[i + 1:]:
                if r in WRITE_ALL or r in WRITE or r in QUIET or \
                        (r.startswith('-') and not r.startswith('--')
                         and any(c in r for c in 'W10')):
                    m.unspecified = True
                    m.why = 'tdda-option-after-test-name'
        i += 1
    return m


def apply_meaning(table, quiet, m):
    """New (table, quiet) after the options were processed."""
    t = dict(table)
    if m.all:
        t[ALL] = True
    for k in m.kinds:
        t[k] = True
    return t, (quiet or m.quiet)


# ------------------------------------------------------------------ pytest route

def parse_pytest_options(write_all, write, wquiet):
    """--write-all (bool), --write (None or list of strings, each possibly a
    comma-separated list), --wquiet (bool)."""
    m = ArgvMeaning()
    m.quiet = bool(wquiet)
    if write_all:
        m.all = True
        # "--write-all --write k": k is regenerated either way
    elif write:
        for r in write:
            for k in r.split(','):
                if k == '':
                    m.unspecified = True
                else:
                    m.kinds.append(k)
    return m


# ------------------------------------------------------------------- contents

_SEPS = ('\r\n', '\r', '\x0b', '\x0c', '\x1c', '\x1d', '\x1e', '\x85',
         '\u2028', '\u2029')


def text_norm(s):
    """Line-structure of a text irrespective of the newline convention and
    of newlines at the very end."""
    for sep in _SEPS:
        s = s.replace(sep, '\n')
    return s.rstrip('\n')


def text_same(a, b):
    """Do two texts compare as the same reference content?
    True: identical.  False: different line content whatever the newline
    convention.  None: they differ only in newline convention / final newline
    (C04's territory, left open here)."""
    if a == b:
        return True
    if text_norm(a) == text_norm(b):
        return UNSPEC
    la, lb = text_norm(a).split('\n'), text_norm(b).split('\n')
    if [x.strip() for x in la] == [x.strip() for x in lb]:
        return UNSPEC                     # whitespace-only differences
    return False


def bytes_same(a, b):
    return a == b


# ------------------------------------------------------------------ assertions

class Expect(object):
    """What the statement demands of one assertion op."""
    __slots__ = ('mode', 'files_after', 'passes')

    def __init__(self, mode, files_after, passes):
        self.mode = mode                # 'regen' | 'normal' | None (either)
        self.files_after = files_after  # dict name -> id for mode; see below
        self.passes = passes            # normal mode: True/False/None


def assertion_expect(table, files, refs, kind, actual_id, same):
    """refs: the reference names this assertion owns; kind: None/'table'/...;
    actual_id: content id of the actual; same(id_ref, id_actual) -> 3-valued.

    Returns (mode, regen_files, normal_passes):
      mode           True  = must regenerate: every ref := actual, no exception
                     False = must be a normal comparison: nothing on disk
                             changes, passes iff every ref exists and is the
                             same content
                     None  = either of the two (conflicting flags)
    """
    mode = should_regen(table, kind)
    regen_files = dict(files)
    for r in refs:
        regen_files[r] = actual_id
    verdicts = []
    for r in refs:
        if files.get(r) is None:
            verdicts.append(False)
        else:
            verdicts.append(same(files[r], actual_id))
    if any(v is False for v in verdicts):
        passes = False
    elif any(v is None for v in verdicts):
        passes = UNSPEC
    else:
        passes = True
    return mode, regen_files, passes
