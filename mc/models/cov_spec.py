"""
Reference model for C18 (rexpy coverage figures): an independent recount with
the standard `re` module.  Written from the property statement and the
docstrings of Extractor.coverage / incremental_coverage /
full_incremental_coverage / n_examples; never imports tdda.

Vocabulary
  supplied   list of (string, frequency) as given by the caller
  kept       OrderedDict  string-as-rexpy-sees-it -> weight, after the
             documented clean-up (strip if requested; empty strings dropped if
             remove_empties); "In all cases, examples have been stripped."
  matches    rex fully matches s under UNICODE|DOTALL.  Two readings are
             computed: strict (fullmatch) and loose (re.match on the ^...$
             expression, where `$` also matches before one trailing newline).
             Where they differ the figures are unspecified.
"""
import collections
import re

FLAGS = re.UNICODE | re.DOTALL


def kept_examples(supplied, strip=False, remove_empties=False):
    """-> (kept OrderedDict, info dict)"""
    kept = collections.OrderedDict()
    n_supplied = 0
    n_discarded = 0
    distinct_supplied = set()
    for s, f in supplied:
        if s is None or f <= 0:
            continue
        n_supplied += f
        distinct_supplied.add(s)
        t = s.strip() if strip else s
        if remove_empties and t == '':
            n_discarded += f
            continue
        kept[t] = kept.get(t, 0) + f
    return kept, {'n_supplied': n_supplied, 'n_discarded': n_discarded,
                  'n_distinct_supplied': len(distinct_supplied)}


# Documented meaning of the Size constants (comments of class Size): do_all
# "use all examples up to this many" (default 100); do_all_exceptions "add in
# all failures up to this many" (default 4000) - and against the empty
# expression list of the first pass every example is a failure ("If the list
# is empty, all strings are candidates to be returned").  So every supplied
# example is used unless there are more DISTINCT kept examples than both.
DEFAULT_DO_ALL = 100
DEFAULT_DO_ALL_EXCEPTIONS = 4000


def sampling_applies(n_distinct, size=None, do_all=DEFAULT_DO_ALL,
                     do_all_exceptions=DEFAULT_DO_ALL_EXCEPTIONS):
    """May rexpy work on a sample of the examples?  size: None (defaults),
    0 / False ("don't use sampling"), or a (do_all, do_all_exceptions) pair.
    When this is False "the reported number of examples equals the number
    supplied" is a must; when True it is unspecified (n_examples is then
    documented as the number of examples *used* by rexpy)."""
    if size is not None and not size:
        return False
    if isinstance(size, (tuple, list)):
        do_all, do_all_exceptions = size
    return n_distinct > max(do_all, do_all_exceptions)


def anchored(rex):
    return '%s%s%s' % ('' if rex.startswith('^') else '^', rex,
                       '' if rex.endswith('$') else '$')


def match_table(rexes, strings):
    """-> (table, ambiguous): table[i][s] = bool (strict reading);
    ambiguous = True if strict and loose readings differ anywhere.
    Raises re.error if an expression does not compile."""
    table = []
    ambiguous = False
    for r in rexes:
        c = re.compile(anchored(r), FLAGS)
        row = {}
        for s in strings:
            strict = c.fullmatch(s) is not None
            loose = c.match(s) is not None
            if strict != loose:
                ambiguous = True
            row[s] = strict
        table.append(row)
    return table, ambiguous


def match_tables(rexes, strings):
    """-> list of match tables, one per admissible reading of "matches":
    [strict] when fullmatch and re.match agree everywhere, otherwise
    [strict, loose].  (rexpy's documentation does not define "matches";
    tdda's own rex verification uses re.match, under which `$` also matches
    before one final newline; C03 speaks of matching in full.  Where the two
    differ a figure may follow either reading.)"""
    strict = []
    loose = []
    differ = False
    for r in rexes:
        c = re.compile(anchored(r), FLAGS)
        rs, rl = {}, {}
        for s in strings:
            rs[s] = c.fullmatch(s) is not None
            rl[s] = c.match(s) is not None
            if rs[s] != rl[s]:
                differ = True
        strict.append(rs)
        loose.append(rl)
    return [strict, loose] if differ else [strict]


def weight(kept, s, dedup):
    return 1 if dedup else kept[s]


def total(kept, dedup):
    return len(kept) if dedup else sum(kept.values())


def coverage(table, kept, dedup):
    return [sum(weight(kept, s, dedup) for s in kept if row[s])
            for row in table]


def uncovered(table, kept):
    return [s for s in kept if not any(row[s] for row in table)]


def walk(order, table, kept):
    """order: indices of expressions in the order the implementation listed
    them.  -> list of (incr, incr_uniq): weight / number of kept examples
    matched by that expression and by none listed before it (so every example
    is credited to exactly the first listed expression that matches it)."""
    done = set()
    out = []
    for i in order:
        new = [s for s in kept if table[i][s] and s not in done]
        out.append((sum(kept[s] for s in new), len(new)))
        done.update(new)
    return out


def non_increasing(seq):
    return all(a >= b for a, b in zip(seq, seq[1:]))
