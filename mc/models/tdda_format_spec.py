"""
Reference model of the .tdda JSON file format, for C09.

Written from tdda/constraints/tdda_json_file_format.md and the statement of
property C09 only; imports nothing from tdda.  Everything here works on plain
Python values as returned by json.loads.

The model is three-valued.  For a hand-written document it says

  * whether the document is inside the *documented* format (`classify`): only
    then is loading required to succeed;
  * which constraints (field, kind, value) a faithful re-serialisation MUST
    still carry (`expected_constraints`) and how two values are compared
    (`same_value`: numbers by type and exact value incl. the sign of zero,
    lists whose order the document declares insignificant as sets, date
    bounds as instants);
  * what is left open (UNSPEC): null-valued constraints may be kept or dropped,
    unknown kinds / '#' keys may be kept or dropped in the output, key order
    is free, a field left without any constraint may be kept or dropped, date
    strings whose fraction is not exactly six digits, non-finite numbers.

`text_problems` is the validity clause of the statement for a written text.
"""
import datetime
import json
import math
import re

# The kinds the format document lists as recognised.
KNOWN_KINDS = ('type', 'min', 'max', 'min_length', 'max_length', 'sign',
               'max_nulls', 'no_duplicates', 'allowed_values', 'rex')
TYPES = ('bool', 'int', 'real', 'string', 'date')
SIGNS = ('positive', 'non-negative', 'zero', 'non-positive', 'negative',
         'null')
PRECISIONS = ('closed', 'open', 'fuzzy')
BOUND_KINDS = ('min', 'max')
# "order is not significant" is said of these three list-valued kinds
UNORDERED_LIST_KINDS = ('type', 'allowed_values', 'rex')

UNSPEC = 'unspecified'


def is_comment_key(k):
    return isinstance(k, str) and k.startswith('#')


def is_unknown_kind(k):
    return (not is_comment_key(k)) and k not in KNOWN_KINDS


# --------------------------------------------------------------------- values

def constraint_value(v):
    """(value, precision, is_dict_form) of a constraint entry: "the scalar
    value, or the `value` key if the value is a dictionary"."""
    if isinstance(v, dict):
        return v.get('value'), v.get('precision'), True
    return v, None, False


def is_null_valued(v):
    return constraint_value(v)[0] is None


_DATE = re.compile(r'^(\d{4})-(\d{2})-(\d{2})'
                   r'(?:[ T](\d{2}):(\d{2}):(\d{2})(?:\.(\d+))?'
                   r'([-+]\d{2}:\d{2}|Z)?)?$')


def parse_instant(s):
    """datetime for the ISO-like spellings whose meaning nobody disputes
    (date; date + HH:MM:SS; the same with exactly six fractional digits;
    each optionally followed by a UTC offset +HH:MM / -HH:MM, which is how
    Python - and therefore tdda - writes a timezone-aware datetime, or by
    the ISO 8601 designator Z = +00:00: the result is then timezone-aware.
    The sign applies to the WHOLE offset: -03:30 is 3 h 30 min west of UTC);
    UNSPEC for any other number of fractional
    digits or other spellings (the format document does not define date
    syntax); None if s is not a string."""
    if not isinstance(s, str):
        return None
    m = _DATE.match(s)
    if not m:
        return UNSPEC
    y, mo, d, h, mi, sec, frac, off = m.groups()
    if frac is not None and len(frac) != 6:
        return UNSPEC
    tz = None
    if off == 'Z':
        tz = datetime.timezone.utc
    elif off is not None:
        minutes = int(off[1:3]) * 60 + int(off[4:6])
        if minutes >= 24 * 60 or int(off[4:6]) >= 60:
            return UNSPEC
        tz = datetime.timezone(datetime.timedelta(
            minutes=-minutes if off[0] == '-' else minutes))
    try:
        return datetime.datetime(int(y), int(mo), int(d), int(h or 0),
                                 int(mi or 0), int(sec or 0), int(frac or 0),
                                 tzinfo=tz)
    except ValueError:
        return UNSPEC


def same_instant(ia, ib):
    """two parse_instant results denote the same bound: both naive and
    equal, or both timezone-aware and the same instant (how the offset is
    spelt on re-writing is left open)."""
    if (ia.tzinfo is None) != (ib.tzinfo is None):
        return False
    return ia == ib


def field_is_date_typed(fc):
    """The field's own type constraint says exactly 'date' (scalar, or the
    documented dictionary form {"value": "date"})."""
    if not isinstance(fc, dict) or 'type' not in fc:
        return False
    return constraint_value(fc['type'])[0] == 'date'


def same_scalar(a, b):
    """Exact identity of JSON scalars: type-sensitive (1 is not 1.0, true is
    not 1), sign of zero kept."""
    if type(a) is not type(b):
        return False
    if isinstance(a, float):
        if math.isnan(a) or math.isnan(b):
            return math.isnan(a) and math.isnan(b)
        return a == b and math.copysign(1.0, a) == math.copysign(1.0, b)
    return a == b


def _canon(x):
    return json.dumps(x, sort_keys=True, ensure_ascii=True) + '|' + \
        type(x).__name__ + ('-' if isinstance(x, float) and x == 0
                            and math.copysign(1.0, x) < 0 else '')


def same_value(kind, a, b, date_typed):
    """True / False / UNSPEC: does written value b denote the constraint
    value a?  (a, b are the *values*, i.e. after constraint_value.)"""
    if kind in BOUND_KINDS and isinstance(a, str):
        if isinstance(b, str) and a == b:
            return True
        if not isinstance(b, str):
            return False
        # a date bound may be re-spelt, but must stay the same instant
        ia, ib = parse_instant(a), parse_instant(b)
        if ia is UNSPEC or ib is UNSPEC:
            return UNSPEC if date_typed else False
        return same_instant(ia, ib)
    if isinstance(a, list):
        if not isinstance(b, list):
            return False
        if kind in UNORDERED_LIST_KINDS:
            # "order is not significant"; a repeated entry adds nothing
            return set(_canon(x) for x in a) == set(_canon(x) for x in b)
        if len(a) != len(b):
            return False
        return all(same_scalar(x, y) for x, y in zip(a, b))
    if isinstance(a, (dict, list)) or isinstance(b, (dict, list)):
        return a == b
    return same_scalar(a, b)


# ------------------------------------------------------------- classification

def _nonfinite(x):
    if isinstance(x, float):
        return math.isnan(x) or math.isinf(x)
    if isinstance(x, list):
        return any(_nonfinite(y) for y in x)
    if isinstance(x, dict):
        return any(_nonfinite(y) for y in x.values())
    return False


def classify_entry(kind, v, date_typed):
    """'doc' if this (kind, entry) is inside the documented format, else a
    short reason string (gray zone: loading may succeed or be rejected)."""
    if is_comment_key(kind) or is_unknown_kind(kind):
        return 'doc'            # statement: ignored, whatever the value is
    value, precision, dictform = constraint_value(v)
    if dictform:
        if 'value' not in v:
            return 'dict-without-value'
        for k in v:
            if k not in ('value', 'precision', 'comment'):
                return 'dict-extra-key'
        if 'precision' in v:
            if kind not in BOUND_KINDS:
                return 'precision-on-non-bound'
            if precision not in PRECISIONS:
                return 'bad-precision'
        if 'comment' in v:
            return 'dict-comment-key'   # accepted by code, not in the document
    if value is None:
        return 'doc'
    if _nonfinite(value):
        return 'non-finite-number'
    if kind == 'type':
        vals = value if isinstance(value, list) else [value]
        if not all(isinstance(t, str) and t in TYPES for t in vals):
            return 'bad-type-name'
        return 'doc'
    if kind in BOUND_KINDS:
        if isinstance(value, bool) or \
                not isinstance(value, (int, float, str)):
            return 'odd-bound-value'
        if date_typed and isinstance(value, str) and \
                parse_instant(value) is UNSPEC:
            return 'date-syntax-undocumented'
        if date_typed and not isinstance(value, str):
            return 'number-as-bound-of-date-field'
        return 'doc'
    if kind in ('min_length', 'max_length', 'max_nulls'):
        if isinstance(value, bool) or not isinstance(value, int) or value < 0:
            return 'odd-count-value'
        return 'doc'
    if kind == 'sign':
        return 'doc' if value in SIGNS else 'bad-sign'
    if kind == 'no_duplicates':
        return 'doc' if isinstance(value, bool) else 'odd-boolean'
    if kind == 'allowed_values':
        return 'doc' if isinstance(value, list) else 'not-a-list'
    if kind == 'rex':
        if isinstance(value, list) and all(isinstance(r, str) for r in value):
            return 'doc'
        return 'not-a-list-of-strings'
    return 'doc'


def classify(doc):
    """('doc', None) or ('gray', reason) for a whole document."""
    if not isinstance(doc, dict):
        return 'gray', 'top-level-not-object'
    if 'creation_metadata' in doc and \
            not isinstance(doc['creation_metadata'], dict):
        # the format document does not describe creation_metadata at all;
        # tdda itself only ever writes an object there
        return 'gray', 'metadata-not-object'
    if 'fields' not in doc:
        # the format document calls both top-level keys optional, but tdda's
        # own pinned test suite lists {} among the "malformed" dictionaries
        # that must be rejected: the two sources disagree -> unspecified
        return 'gray', 'no-fields-key'
    fields = doc.get('fields')
    if fields is None:
        return 'doc', None      # "fields": null = no field constraints
    if not isinstance(fields, dict):
        return 'gray', 'fields-not-object'
    for name, fc in fields.items():
        if not isinstance(fc, dict):
            # a '#...' entry among the fields whose value is not a dictionary:
            # a field name or a comment?  the statement does not say.
            return 'gray', 'field-entry-not-object'
        dt = field_is_date_typed(fc)
        for kind, v in fc.items():
            r = classify_entry(kind, v, dt)
            if r != 'doc':
                return 'gray', r
    return 'doc', None


# ---------------------------------------------------------- expected content

def expected_constraints(doc):
    """[(field, kind, value, precision, date_typed)] that a faithful reload +
    re-serialisation must still carry: every documented kind with a non-null
    value.  Order of the list = document order (not an obligation)."""
    out = []
    fields = (doc.get('fields') if isinstance(doc, dict) else None) or {}
    for name, fc in fields.items():
        if not isinstance(fc, dict):
            continue
        dt = field_is_date_typed(fc)
        for kind, v in fc.items():
            if kind not in KNOWN_KINDS:
                continue
            value, precision, _ = constraint_value(v)
            if value is None:
                continue
            out.append((name, kind, value, precision, dt))
    return out


def compare_written(doc, written):
    """Compare the parsed written document with the obligations of `doc`.
    Returns (problems, n_unspec); problems = [(clause, detail)]."""
    problems = []
    unspec = 0
    wfields = (written.get('fields') if isinstance(written, dict) else None)
    if not isinstance(wfields, dict):
        return [('written-has-fields-object', {'fields': repr(wfields)[:80]})], 0
    exp = expected_constraints(doc)
    for (name, kind, value, precision, dt) in exp:
        if name not in wfields or kind not in wfields[name]:
            problems.append(('constraint-kept',
                             {'field': name, 'kind': kind, 'lost': value}))
            continue
        wv, wp, _ = constraint_value(wfields[name][kind])
        r = same_value(kind, value, wv, dt)
        if r is UNSPEC:
            unspec += 1
        elif not r:
            problems.append(('value-kept', {'field': name, 'kind': kind,
                                            'input': value, 'written': wv}))
        if precision in PRECISIONS and wp != precision:
            problems.append(('precision-kept',
                             {'field': name, 'kind': kind,
                              'input': precision, 'written': wp}))
        if precision is None and wp not in (None, 'fuzzy'):
            # "fuzzy ... is the default": writing it out explicitly is fine
            problems.append(('precision-invented',
                             {'field': name, 'kind': kind, 'written': wp}))
    # nothing invented: every documented kind with a non-null value in the
    # output must come from the input
    have = set((n, k) for (n, k, _, _, _) in exp)
    for name, fc in wfields.items():
        if not isinstance(fc, dict):
            problems.append(('written-field-is-object', {'field': name}))
            continue
        for kind, v in fc.items():
            if kind in KNOWN_KINDS and not is_null_valued(v) and \
                    (name, kind) not in have:
                problems.append(('constraint-invented',
                                 {'field': name, 'kind': kind,
                                  'written': constraint_value(v)[0]}))
    # field order: "immaterial" -> no obligation.
    return problems, unspec


# ----------------------------------------------------------------- rewriting

def strip_ignorable(doc):
    """The same document without unknown kinds and '#' keys (at the top level
    and at the kind level).  The statement: these are ignored."""
    out = {}
    for k, v in doc.items():
        if is_comment_key(k):
            continue
        if k == 'fields' and isinstance(v, dict):
            nf = {}
            for name, fc in v.items():
                if isinstance(fc, dict):
                    nf[name] = dict((kind, e) for kind, e in fc.items()
                                    if kind in KNOWN_KINDS)
                else:
                    nf[name] = fc
            out[k] = nf
        elif k in ('fields', 'field_groups', 'creation_metadata'):
            out[k] = v
        # any other (unknown) top-level key: dropped
    return out


def has_ignorable(doc):
    if any(k not in ('fields', 'field_groups', 'creation_metadata')
           for k in doc):
        return True
    f = doc.get('fields')
    if isinstance(f, dict):
        for fc in f.values():
            if isinstance(fc, dict) and any(k not in KNOWN_KINDS for k in fc):
                return True
    return False


def strip_nulls(doc):
    """The same document without null-valued constraints ("should produce
    identical results to one omitting those constraints")."""
    out = dict(doc)
    f = doc.get('fields')
    if isinstance(f, dict):
        nf = {}
        for name, fc in f.items():
            if isinstance(fc, dict):
                nf[name] = dict((k, e) for k, e in fc.items()
                                if not (k in KNOWN_KINDS and is_null_valued(e)))
            else:
                nf[name] = fc
        out['fields'] = nf
    return out


def has_nulls(doc):
    f = doc.get('fields')
    if isinstance(f, dict):
        for fc in f.values():
            if isinstance(fc, dict) and any(k in KNOWN_KINDS and
                                            is_null_valued(e)
                                            for k, e in fc.items()):
                return True
    return False


# ------------------------------------------------------------ text validity

class _NonFinite(Exception):
    pass


def text_problems(text):
    """Validity clauses of the statement for a text written by tdda.
    Returns ([(clause, detail)], parsed_or_None, nonfinite_flag)."""
    probs = []
    try:
        text.encode('utf-8')
    except UnicodeError as e:
        probs.append(('utf-8', {'error': str(e)[:120]}))
    if not text.endswith('\n') or text.endswith('\n\n'):
        probs.append(('ends-with-one-newline', {'tail': text[-20:]}))
    for i, line in enumerate(text.split('\n')):
        if line != line.rstrip():
            probs.append(('no-trailing-whitespace',
                          {'line': i + 1, 'text': line[-40:]}))
            break
    nonfinite = []
    parsed = None
    try:
        parsed = json.loads(text,
                            parse_constant=lambda c: nonfinite.append(c)
                            or float(c.replace('Infinity', 'inf')))
    except ValueError as e:
        probs.append(('valid-json', {'error': str(e)[:160]}))
    return probs, parsed, bool(nonfinite)


def split_fields_section(text):
    """(head, fields_section) of a text in the layout a JSON writer with
    indentation gives a top-level object: the part from the top-level
    "fields" key onwards.  (None, None) if there is no such key at
    indentation 4."""
    m = re.search(r'(?m)^    "fields": ', text)
    if not m:
        return None, None
    return text[:m.start()], text[m.start():]
