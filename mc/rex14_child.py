"""
Child process for C14's hash-seed clause: reads {"jobs": [[examples, optid],
...]} as JSON on stdin, runs the real tdda.rexpy.extract on every job under
this interpreter's PYTHONHASHSEED and prints the list of results as JSON.
Run as:  PYTHONHASHSEED=n TDDA_SRC=... python -m mc.rex14_child   (cwd /verif)
"""
import json
import sys


def main():
    from mc import engine
    engine.install_tdda_path()
    import warnings
    warnings.filterwarnings('ignore')
    from mc.rex14_alphabet import OPTIONS
    from tdda.rexpy import rexpy
    data = json.loads(sys.stdin.read())
    out = []
    for xs, o in data['jobs']:
        if hasattr(rexpy, 'memo'):
            rexpy.memo.clear()
        try:
            r = rexpy.extract(list(xs), **OPTIONS[o])
            out.append(r)
        except Exception as e:
            out.append({'exception': type(e).__name__, 'msg': str(e)[:200]})
    sys.stdout.write('RESULTS ' + json.dumps(
        {'hashseed': sys.flags.hash_randomization and
         __import__('os').environ.get('PYTHONHASHSEED'), 'results': out}))
    sys.stdout.write('\n')


if __name__ == '__main__':
    main()
