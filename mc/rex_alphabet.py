# -*- coding: utf-8 -*-
"""
Shared alphabets for the rexpy properties (C03 C13 C14 C18) - DESIGN §3.3.

Pure data + itertools; imports nothing from tdda, pandas only inside
`as_series`.  Everything is deterministic and in a canonical order.

API (keep it small; all values are plain str / None / dict / list)
-------------------------------------------------------------------
Characters
  SIGMA_Q           12 chars, one per class rexpy distinguishes (quick)
  SIGMA_T           26 chars = SIGMA_Q + 14 more traps (thorough)
  SIGMA_8           8-char sub-alphabet (a 0 - ^ ] \\ space é)
Strings
  strings_upto(sigma, L)        every string over sigma of length 0..L
                                (by length, then alphabet order):
                                |SIGMA_Q|,2 -> 157; |SIGMA_T|,2 -> 703;
                                |SIGMA_Q|,3 -> 1885
  STRUCTURED        fixed list of longer examples that reach the merge /
                    alignment / range / strip code
  LONG_STRUCTURED   >99-fragment strings (group-limit fallback)
  STRUCTURED_SETS   hand-picked example collections (lists of str) that need
                    more examples than the N bound (punctuation groups > 5,
                    fixed-string groups > 10, doc examples)
  sub_alphabet(n)   first n strings of a fixed priority list (n <= 55), the
                    "n-string sub-alphabet" of DESIGN (8, 12, 20, 30, 40, 55)
  SAMPLED_POOL_Q / SAMPLED_POOL_T
                    pools for the sampled path (8 / 12 strings)
Example collections
  example_sets(pool, n)         all n-subsets of pool, as lists, canonical
  example_sets_upto(pool, N)    sizes 0..N
  as_list(xs, reverse=False)    list form
  as_dict(xs, freqs=(1, 2, 3))  frequency dict (None entries dropped: a dict
                                key cannot usefully be null), freq cycles
  as_series(xs, kind)           pandas forms for pdextract; kind in
                                PANDAS_KINDS = ('object', 'category', 'two')
Options
  OPTION_AXES       ordered {name: [default, alternatives...]} - 2*2*2*2*5*3
                    = 240 points
  DEFAULT_OPTIONS   dict of defaults
  option_lattice(max_dev=None, axes=None)
                    list of option dicts ordered by number of deviations from
                    the default, then canonically; max_dev=None is the full
                    product (240), 2 -> 49 (1+10+38), 1 -> 11, 0 -> 1.  `axes`
                    lets a caller add / restrict axes (same dict shape).
  n_deviations(opts, axes=None) ; opt_key(opts) short printable key
  kwargs_of(opts)   dict to pass to tdda.rexpy.extract (drops harness keys)
Sampling
  SIZE_SETTINGS(tier) list of {'do_all','do_all_exceptions',
                    'max_sampled_attempts'} ; SEEDS = [None, 0, 1]
"""
import itertools
from collections import OrderedDict

# ---------------------------------------------------------------- characters
#  a Z 0 _  : lower / upper / ascii digit / underscore (letter only via
#             extra_letters)
#  - . ^ ] \: the characters special inside a bracket expression and in
#             escape(); - . _ are also the possible extra letters
#  ' '      : whitespace (strip)
#  é        : non-ASCII letter (ULetter)
#  ٣ U+0663 : non-ASCII decimal digit (Nd): \d matches, [0-9] does not
SIGMA_Q = ['a', 'Z', '0', '_', '-', '.', '^', ']', '\\', ' ', 'é',
           '٣']
#  \t \n    : other whitespace (DOTALL, $ before final newline)
#  ² U+00B2 : digit-like (No): str.isdigit() but not \d
#  Ⅷ U+2167 : letter-number (Nl): \w but neither alpha nor digit
#  ß        : lower-case letter whose upper() is two characters
#  € U+20AC : non-ASCII symbol (coarse class Other)
#  " ' * + ( | $ { : quote / regex metacharacters
SIGMA_T = SIGMA_Q + ['\t', '\n', '²', 'Ⅷ', 'ß', '€',
                     '"', "'", '*', '+', '(', '|', '$', '{']
SIGMA_8 = ['a', '0', '-', '^', ']', '\\', ' ', 'é']


def strings_upto(sigma, L):
    """Every string over `sigma` of length 0..L, shortest first."""
    out = []
    for n in range(L + 1):
        for t in itertools.product(sigma, repeat=n):
            out.append(''.join(t))
    return out


STRUCTURED = [
    'a-b', 'c-d-e', 'AB12', 'ab12', '1.2.3', 'x_y', 'a b', ' a ', 'aaaa',
    'EH1 7JQ', 'G2 3QR', '2000-02-29', 'a.b@c.d', '(555) 123-4567',
    'ab\ncd', '\tx\t', 'HM', 'MH-RT', 'QY-TR-BF', 'one', 'three',
    '^-', '-^', 'a^b', 'a-b^c', '٣٣', '0٣', '٣0',
]
LONG_STRUCTURED = [
    'a-' * 60,             # 120 coarse fragments  > MAX_GROUPS
    'a-' * 50 + 'b',       # 101
    'a1' * 55,             # one coarse fragment, 110 fine-class runs
    'a1' * 45,
    'x' * 120,
]
STRUCTURED_SETS = [
    ['!', '"', '#', '%', '&', "'", ','],                # > max_punc_in_group
    ['!', '"', '#', '%', '&'],                          # = max_punc_in_group
    ['^', '-', ']', '\\', '!'],
    ['^', '-'], ['a^', 'a-'], ['^-', '-^', '--', '^^'],
    ['one', 'two', 'three', 'four', 'five', 'six', 'seven', 'eight', 'nine',
     'ten', 'eleven', 'twelve'],                        # > max_strings_in_group
    ['123-AA-971', '12-DQ-802', '198-AA-045', '1-BA-834'],
    ['HM', 'MH-RT', 'QY-TR-BF', 'QK-YT-IU-QP'],
    ['EH1 7JQ', 'G2 3QR', 'WC1N 3AX', 'N1 9GU'],
    ['a', 'aa', 'aaa', 'aaaa', 'aaaaa'],
    ['a.b', 'c_d', 'e-f', 'gh'],
    [' a', 'a ', ' a ', 'a', ''],
    ['a-' * 60, 'a-' * 50 + 'b', 'a1' * 55, 'a1' * 45],
    ['٣', '٤', '5', '²'],
    ['a1', '1a', 'a٣', '٣a'],
]

# priority list for sub-alphabets: earlier = more distinct behaviour.
_PRIORITY = [
    'a', 'b', 'Z9', '12', 'a-b', 'x_y', ' ', 'é.',            # 8
    '', '^', '-', '٣',                                         # 12
    'AB', 'ab12', '.', ']', '\\', ' a', 'a ', '_',                 # 20
    'a.b', 'c-d-e', '1.2', 'Z', '0', 'a b', 'é', '^-', '-^', 'a^',  # 30
    'aaaa', '  ', 'a٣', '²', 'Ⅷ', 'a_', '-a', '.a', 'a]',
    '\\a',                                                          # 40
    '\n', 'a\n', '\t', '$', '(', '|', '*', '+', '{', '"', "'", '€',
    'ß', 'a$', '(a',                                           # 55
]
assert len(_PRIORITY) == len(set(_PRIORITY)) == 55


def sub_alphabet(n):
    assert 0 < n <= len(_PRIORITY)
    return list(_PRIORITY[:n])


# Pools for the sampled path.  The quick pool avoids the characters of the
# two known unsampled-path defects ({^,-} bracket, non-ASCII digits) so that
# a sampled-path violation has one root cause; the thorough pool adds them.
SAMPLED_POOL_Q = sub_alphabet(8)
SAMPLED_POOL_T = sub_alphabet(12)


# ------------------------------------------------------------ example sets

def example_sets(pool, n):
    for t in itertools.combinations(pool, n):
        yield list(t)


def example_sets_upto(pool, N):
    for n in range(N + 1):
        for s in example_sets(pool, n):
            yield s


def as_list(xs, reverse=False):
    return list(reversed(xs)) if reverse else list(xs)


def as_dict(xs, freqs=(1, 2, 3)):
    """Frequency dictionary; i-th distinct string gets freqs[i % len]."""
    d = OrderedDict()
    i = 0
    for x in xs:
        if x is None or x in d:
            continue
        d[x] = freqs[i % len(freqs)]
        i += 1
    return d


PANDAS_KINDS = ('object', 'category', 'two')


def as_series(xs, kind='object'):
    """pandas input for pdextract.  'object': one object-dtype Series with a
    null and a repeat; 'category': one categorical Series; 'two': a list of
    two object Series splitting the examples (null in the second)."""
    import pandas as pd
    xs = list(xs)
    if kind == 'object':
        vals = xs + [None] + xs[:1]
        return pd.Series(vals, dtype=object)
    if kind == 'category':
        vals = xs + [None]
        cats = []
        for x in xs:
            if x is not None and x not in cats:
                cats.append(x)
        return pd.Series(pd.Categorical(vals, categories=cats))
    if kind == 'two':
        h = (len(xs) + 1) // 2
        return [pd.Series(xs[:h], dtype=object),
                pd.Series([None] + xs[h:], dtype=object)]
    raise ValueError(kind)


# ----------------------------------------------------------------- options

OPTION_AXES = OrderedDict([
    ('tag', [False, True]),
    ('strip', [False, True]),
    ('remove_empties', [False, True]),
    ('variableLengthFrags', [False, True]),
    ('extra_letters', [None, '_', '-', '.', '_-.']),
    ('dialect', ['portable', 'perl', 'grep']),
])
DEFAULT_OPTIONS = dict((k, v[0]) for (k, v) in OPTION_AXES.items())

# extra axes used by C13 (pruning)
PRUNE_AXES = OrderedDict([
    ('max_patterns', [None, 1, 2]),
    ('min_strings_per_pattern', [1, 2]),
])


def n_deviations(opts, axes=None):
    axes = axes or OPTION_AXES
    return sum(1 for k in axes if k in opts and opts[k] != axes[k][0])


def option_lattice(max_dev=None, axes=None):
    """Option points ordered by number of deviations from the default (the
    deviation bound on configuration), then in axis order."""
    axes = axes or OPTION_AXES
    names = list(axes)
    alts = [list(range(len(axes[k]))) for k in names]
    pts = []
    for idx in itertools.product(*alts):
        dev = sum(1 for i in idx if i)
        if max_dev is not None and dev > max_dev:
            continue
        pts.append((dev, idx))
    pts.sort()
    return [dict((names[j], axes[names[j]][i]) for (j, i) in enumerate(idx))
            for (dev, idx) in pts]


_SHORT = {'tag': 'tag', 'strip': 'strip', 'remove_empties': 're',
          'variableLengthFrags': 'vlf', 'extra_letters': 'el',
          'dialect': 'd', 'max_patterns': 'maxp',
          'min_strings_per_pattern': 'minspp'}


def opt_key(opts):
    """Short printable key naming only the non-default options."""
    parts = []
    for k in list(OPTION_AXES) + list(PRUNE_AXES):
        if k not in opts:
            continue
        v = opts[k]
        d = (OPTION_AXES.get(k) or PRUNE_AXES.get(k))[0]
        if v == d:
            continue
        parts.append(_SHORT[k] if v is True else '%s=%s' % (_SHORT[k], v))
    return ','.join(parts) or 'default'


def kwargs_of(opts):
    """Keyword arguments for tdda.rexpy.extract / Extractor."""
    return dict((k, v) for (k, v) in opts.items()
                if k in OPTION_AXES or k in PRUNE_AXES)


# ---------------------------------------------------------------- sampling

SEEDS = [None, 0, 1]


def SIZE_SETTINGS(tier='quick'):
    vals = (1, 2) if tier == 'quick' else (1, 2, 3)
    return [{'do_all': a, 'do_all_exceptions': e, 'max_sampled_attempts': m}
            for a in vals for e in vals for m in vals]
