# -*- coding: utf-8 -*-
"""
Shared alphabets for the rexpy properties (C03 C13 C14 C18) - DESIGN §3.3.

Pure data + itertools; imports nothing from tdda, pandas only inside
`as_series`.  Everything is deterministic and in a canonical order.

API (keep it small; all values are plain str / None / dict / list)
-------------------------------------------------------------------
Characters
  SIGMA_Q           12 chars, one per class rexpy distinguishes (quick)
  SIGMA_T           26 chars = SIGMA_Q + 14 more traps (thorough)
  SIGMA_8           8-char sub-alphabet (a 0 - ^ ] \\ space é)
Strings
  strings_upto(sigma, L)        every string over sigma of length 0..L
                                (by length, then alphabet order):
                                |SIGMA_Q|,2 -> 157; |SIGMA_T|,2 -> 703;
                                |SIGMA_Q|,3 -> 1885
  STRUCTURED        fixed list of longer examples that reach the merge /
                    alignment / range / strip code
  LONG_STRUCTURED   >99-fragment strings (group-limit fallback)
  STRUCTURED_SETS   hand-picked example collections (lists of str) that need
                    more examples than the N bound (punctuation groups > 5,
                    fixed-string groups > 10, doc examples)
  sub_alphabet(n)   first n strings of a fixed priority list (n <= 55), the
                    "n-string sub-alphabet" of DESIGN (8, 12, 20, 30, 40, 55)
  SAMPLED_POOL_Q / SAMPLED_POOL_T
                    pools for the sampled path (8 / 12 strings)
Example collections
  example_sets(pool, n)         all n-subsets of pool, as lists, canonical
  example_sets_upto(pool, N)    sizes 0..N
  as_list(xs, reverse=False)    list form
  as_dict(xs, freqs=(1, 2, 3))  frequency dict (None entries dropped: a dict
                                key cannot usefully be null), freq cycles
  as_series(xs, kind)           pandas forms for pdextract; kind in
                                PANDAS_KINDS = ('object', 'category', 'two')
Options
  OPTION_AXES       ordered {name: [default, alternatives...]} - 2*2*2*2*5*3
                    = 240 points
  DEFAULT_OPTIONS   dict of defaults
  option_lattice(max_dev=None, axes=None)
                    list of option dicts ordered by number of deviations from
                    the default, then canonically; max_dev=None is the full
                    product (240), 2 -> 49 (1+10+38), 1 -> 11, 0 -> 1.  `axes`
                    lets a caller add / restrict axes (same dict shape).
  n_deviations(opts, axes=None) ; opt_key(opts) short printable key
  kwargs_of(opts)   dict to pass to tdda.rexpy.extract (drops harness keys)
Sampling
  SIZE_SETTINGS(tier) list of {'do_all','do_all_exceptions',
                    'max_sampled_attempts'} ; SEEDS = [None, 0, 1]
  REFINE_POOLS      [(name, pool, set sizes, extract kwargs)]: pools of ONE
                    common shape mixing a-f-only / non-hex letters / digits /
                    upper case / a non-ASCII digit / a trailing newline /
                    extra-letter characters, so that the class chosen for a
                    fragment is REFINED between passes of the sampled loop
Structured families (generated from a grammar, not from all strings <= L)
  FAMILY_CLASSES    {code: character pool}: h lower a-f, l lower non-hex,
                    U upper, d digits, m mixed alnum (every char a new fine
                    class), p one punctuation char, v varying punctuation
  FAMILY_RUNS       (0, 1, 2, 3, 4, 6)   run lengths; 0 = fragment absent
  family_shapes()   sequences of 1-3 classes (adjacent ones distinct)
  family_string(shape, runs, variant)
                    the string with runs[i] characters of class shape[i];
                    `variant` shifts the characters taken from each pool
  family_sets(tier='quick')
                    example sets (lists of 2-4 strings) of one shape whose
                    run lengths differ in one fragment (every pair, selected
                    triples / quadruples of FAMILY_RUNS, same and shifted
                    characters) or in all fragments together
  two_shape_sets(tier='quick')
                    2 or 4 strings instantiating two shapes that differ in
                    the class of one fragment
  tie_sets(tier='quick')
                    quadruples (two strings of each of two shapes, so two
                    expressions of equal frequency) in both orders, and the
                    corresponding pairs
  boundary_sets()   larger sets around rexpy's group limits: 10/11/12
                    distinct strings in one fragment (max_strings_in_group
                    = 10) and 4..7 distinct punctuation characters in one
                    fragment (max_punc_in_group = 5), alone and inside a
                    longer shape
  wide_sets()       K same-shape examples, K in {10,11,12,13} (either side of
                    rexpy's per-fragment string cap), for shapes of 2-3
                    fragments: one alnum fragment counts (distinct per
                    example), one other fragment is CONSTANT except in the
                    example at input position q, for every q in 0..K-1 (so
                    also after the cap while all earlier ones agree); the odd
                    value is of the same class or of a widening class; also
                    K in {4,5,6,7} distinct punctuation characters in one
                    fragment in every rotation (punctuation-group limit 5)
  fragment_limit_sets()
                    2 same-shape strings of 98/99/100/101 coarse fragments
                    (and fine-class runs) differing in an early / middle /
                    last fragment (MAX_GROUPS = 99)
  history_menus()   [(name, [set A, set B, set C])]: example sets that share
                    coarse signature, group count and constant fragments but
                    differ in where the variable part sits (for E3 histories
                    of calls in one process)
  HISTORY_OPTION_POINTS  extra_letters {None,'.','-','_-.'} x tag x dialect
  FAMILY_OPTION_POINTS  the 12 option points {default, tag, perl, grep,
                    el='-', el='_-.'} x variableLengthFrags off/on
Round 3 (documented where defined, at the end of this file)
  UCLASS_REPS uclass_sets()  META_ROLE_STRINGS meta_role_sets()
  EXTRA_AXES (full_escape) META_OPTION_POINTS  DICT_FORMS as_mapping()
  count_vectors() with_counts() zero_count_dicts()
  REAL_SEEDS REAL_PRESTATES REAL_OPTION_POINTS
"""
import itertools
from collections import OrderedDict

# ---------------------------------------------------------------- characters
#  a Z 0 _  : lower / upper / ascii digit / underscore (letter only via
#             extra_letters)
#  - . ^ ] \: the characters special inside a bracket expression and in
#             escape(); - . _ are also the possible extra letters
#  ' '      : whitespace (strip)
#  é        : non-ASCII letter (ULetter)
#  ٣ U+0663 : non-ASCII decimal digit (Nd): \d matches, [0-9] does not
SIGMA_Q = ['a', 'Z', '0', '_', '-', '.', '^', ']', '\\', ' ', 'é',
           '٣']
#  \t \n    : other whitespace (DOTALL, $ before final newline)
#  ² U+00B2 : digit-like (No): str.isdigit() but not \d
#  Ⅷ U+2167 : letter-number (Nl): \w but neither alpha nor digit
#  ß        : lower-case letter whose upper() is two characters
#  € U+20AC : non-ASCII symbol (coarse class Other)
#  " ' * + ( | $ { : quote / regex metacharacters
SIGMA_T = SIGMA_Q + ['\t', '\n', '²', 'Ⅷ', 'ß', '€',
                     '"', "'", '*', '+', '(', '|', '$', '{']
SIGMA_8 = ['a', '0', '-', '^', ']', '\\', ' ', 'é']


def strings_upto(sigma, L):
    """Every string over `sigma` of length 0..L, shortest first."""
    out = []
    for n in range(L + 1):
        for t in itertools.product(sigma, repeat=n):
            out.append(''.join(t))
    return out


STRUCTURED = [
    'a-b', 'c-d-e', 'AB12', 'ab12', '1.2.3', 'x_y', 'a b', ' a ', 'aaaa',
    'EH1 7JQ', 'G2 3QR', '2000-02-29', 'a.b@c.d', '(555) 123-4567',
    'ab\ncd', '\tx\t', 'HM', 'MH-RT', 'QY-TR-BF', 'one', 'three',
    '^-', '-^', 'a^b', 'a-b^c', '٣٣', '0٣', '٣0',
]
LONG_STRUCTURED = [
    'a-' * 60,             # 120 coarse fragments  > MAX_GROUPS
    'a-' * 50 + 'b',       # 101
    'a1' * 55,             # one coarse fragment, 110 fine-class runs
    'a1' * 45,
    'x' * 120,
]
STRUCTURED_SETS = [
    ['!', '"', '#', '%', '&', "'", ','],                # > max_punc_in_group
    ['!', '"', '#', '%', '&'],                          # = max_punc_in_group
    ['^', '-', ']', '\\', '!'],
    ['^', '-'], ['a^', 'a-'], ['^-', '-^', '--', '^^'],
    ['one', 'two', 'three', 'four', 'five', 'six', 'seven', 'eight', 'nine',
     'ten', 'eleven', 'twelve'],                        # > max_strings_in_group
    ['123-AA-971', '12-DQ-802', '198-AA-045', '1-BA-834'],
    ['HM', 'MH-RT', 'QY-TR-BF', 'QK-YT-IU-QP'],
    ['EH1 7JQ', 'G2 3QR', 'WC1N 3AX', 'N1 9GU'],
    ['a', 'aa', 'aaa', 'aaaa', 'aaaaa'],
    ['a.b', 'c_d', 'e-f', 'gh'],
    [' a', 'a ', ' a ', 'a', ''],
    ['a-' * 60, 'a-' * 50 + 'b', 'a1' * 55, 'a1' * 45],
    ['٣', '٤', '5', '²'],
    ['a1', '1a', 'a٣', '٣a'],
]

# priority list for sub-alphabets: earlier = more distinct behaviour.
_PRIORITY = [
    'a', 'b', 'Z9', '12', 'a-b', 'x_y', ' ', 'é.',            # 8
    '', '^', '-', '٣',                                         # 12
    'AB', 'ab12', '.', ']', '\\', ' a', 'a ', '_',                 # 20
    'a.b', 'c-d-e', '1.2', 'Z', '0', 'a b', 'é', '^-', '-^', 'a^',  # 30
    'aaaa', '  ', 'a٣', '²', 'Ⅷ', 'a_', '-a', '.a', 'a]',
    '\\a',                                                          # 40
    '\n', 'a\n', '\t', '$', '(', '|', '*', '+', '{', '"', "'", '€',
    'ß', 'a$', '(a',                                           # 55
]
assert len(_PRIORITY) == len(set(_PRIORITY)) == 55


def sub_alphabet(n):
    assert 0 < n <= len(_PRIORITY)
    return list(_PRIORITY[:n])


# Pools for the sampled path.  The quick pool avoids the characters of the
# two known unsampled-path defects ({^,-} bracket, non-ASCII digits) so that
# a sampled-path violation has one root cause; the thorough pool adds them.
SAMPLED_POOL_Q = sub_alphabet(8)
SAMPLED_POOL_T = sub_alphabet(12)


# ------------------------------------------------------------ example sets

def example_sets(pool, n):
    for t in itertools.combinations(pool, n):
        yield list(t)


def example_sets_upto(pool, N):
    for n in range(N + 1):
        for s in example_sets(pool, n):
            yield s


def as_list(xs, reverse=False):
    return list(reversed(xs)) if reverse else list(xs)


def as_dict(xs, freqs=(1, 2, 3)):
    """Frequency dictionary; i-th distinct string gets freqs[i % len]."""
    d = OrderedDict()
    i = 0
    for x in xs:
        if x is None or x in d:
            continue
        d[x] = freqs[i % len(freqs)]
        i += 1
    return d


PANDAS_KINDS = ('object', 'category', 'two')


def as_series(xs, kind='object'):
    """pandas input for pdextract.  'object': one object-dtype Series with a
    null and a repeat; 'category': one categorical Series; 'two': a list of
    two object Series splitting the examples (null in the second)."""
    import pandas as pd
    xs = list(xs)
    if kind == 'object':
        vals = xs + [None] + xs[:1]
        return pd.Series(vals, dtype=object)
    if kind == 'category':
        vals = xs + [None]
        cats = []
        for x in xs:
            if x is not None and x not in cats:
                cats.append(x)
        return pd.Series(pd.Categorical(vals, categories=cats))
    if kind == 'two':
        h = (len(xs) + 1) // 2
        return [pd.Series(xs[:h], dtype=object),
                pd.Series([None] + xs[h:], dtype=object)]
    raise ValueError(kind)


# ----------------------------------------------------------------- options

OPTION_AXES = OrderedDict([
    ('tag', [False, True]),
    ('strip', [False, True]),
    ('remove_empties', [False, True]),
    ('variableLengthFrags', [False, True]),
    ('extra_letters', [None, '_', '-', '.', '_-.']),
    ('dialect', ['portable', 'perl', 'grep']),
])
DEFAULT_OPTIONS = dict((k, v[0]) for (k, v) in OPTION_AXES.items())

# extra axes used by C13 (pruning)
PRUNE_AXES = OrderedDict([
    ('max_patterns', [None, 1, 2]),
    ('min_strings_per_pattern', [1, 2]),
])


def n_deviations(opts, axes=None):
    axes = axes or OPTION_AXES
    return sum(1 for k in axes if k in opts and opts[k] != axes[k][0])


def option_lattice(max_dev=None, axes=None):
    """Option points ordered by number of deviations from the default (the
    deviation bound on configuration), then in axis order."""
    axes = axes or OPTION_AXES
    names = list(axes)
    alts = [list(range(len(axes[k]))) for k in names]
    pts = []
    for idx in itertools.product(*alts):
        dev = sum(1 for i in idx if i)
        if max_dev is not None and dev > max_dev:
            continue
        pts.append((dev, idx))
    pts.sort()
    return [dict((names[j], axes[names[j]][i]) for (j, i) in enumerate(idx))
            for (dev, idx) in pts]


_SHORT = {'tag': 'tag', 'strip': 'strip', 'remove_empties': 're',
          'variableLengthFrags': 'vlf', 'extra_letters': 'el',
          'dialect': 'd', 'max_patterns': 'maxp',
          'min_strings_per_pattern': 'minspp'}


def opt_key(opts):
    """Short printable key naming only the non-default options."""
    parts = []
    for k in list(OPTION_AXES) + list(PRUNE_AXES) + list(EXTRA_AXES):
        if k not in opts:
            continue
        v = opts[k]
        d = (OPTION_AXES.get(k) or PRUNE_AXES.get(k) or EXTRA_AXES[k])[0]
        if v == d:
            continue
        parts.append(_SHORT[k] if v is True else '%s=%s' % (_SHORT[k], v))
    return ','.join(parts) or 'default'


def kwargs_of(opts):
    """Keyword arguments for tdda.rexpy.extract / Extractor."""
    return dict((k, v) for (k, v) in opts.items()
                if k in OPTION_AXES or k in PRUNE_AXES or k in EXTRA_AXES)


# ---------------------------------------------------------------- sampling

SEEDS = [None, 0, 1]


def SIZE_SETTINGS(tier='quick'):
    vals = (1, 2) if tier == 'quick' else (1, 2, 3)
    return [{'do_all': a, 'do_all_exceptions': e, 'max_sampled_attempts': m}
            for a in vals for e in vals for m in vals]


# Pools for class refinement between passes of the sampled loop (one common
# shape each, so that all strings fall into one expression whose character
# class depends on which strings have been sampled so far).
REFINE_POOLS = [
    ('hex', ['ab', 'cd', 'ef', 'zz', 'xy', '12', '34', 'AB'], (5, 6, 7), {}),
    ('digit-nl', ['12', '34', '56', '\u0663\u0663', 'ab', 'gh\n'], (4, 5),
     {}),
    ('extra', ['ab', 'zz', '12', 'a_', '_b', 'AB'], (5, 6),
     {'extra_letters': '_'}),
]


# ------------------------------------------------------ structured families

FAMILY_CLASSES = OrderedDict([
    ('h', 'abcdef'), ('l', 'gxyzpq'), ('U', 'ABQXZK'), ('d', '0123456789'),
    ('m', 'a1B2c3'), ('p', '-'), ('v', '-./^'),
])
FAMILY_RUNS = (0, 1, 2, 3, 4, 6)
_ALNUM = 'hlUdm'
_PUNCT = 'pv'
_BASE_RUN = 2
_TRIPLES = [(0, 1, 2), (0, 2, 4), (0, 3, 6), (1, 2, 3), (1, 2, 4), (1, 3, 6),
            (2, 3, 4), (2, 4, 6), (0, 1, 4), (0, 1, 6)]
_QUADS = [(0, 1, 2, 3), (0, 2, 4, 6), (1, 2, 3, 4), (1, 3, 4, 6)]


def family_shapes(max_len=3):
    """1-fragment: every class; 2-fragment: adjacent classes distinct, no two
    punctuation classes together, `m` not next to another alnum class;
    3-fragment: alnum-punct-alnum, three alnum, punct-alnum-punct over the
    alnum classes h l U d."""
    out = [(c,) for c in FAMILY_CLASSES]
    if max_len >= 2:
        for a in FAMILY_CLASSES:
            for b in FAMILY_CLASSES:
                if a == b or (a in _PUNCT and b in _PUNCT):
                    continue
                if a in _ALNUM and b in _ALNUM and 'm' in (a, b):
                    continue
                out.append((a, b))
    if max_len >= 3:
        al = 'hlUd'
        for a in al:
            for q in _PUNCT:
                for b in al:
                    out.append((a, q, b))
        for a in al:
            for b in al:
                for c in al:
                    if a != b and b != c:
                        out.append((a, b, c))
        for q in _PUNCT:
            for a in al:
                for r in _PUNCT:
                    out.append((q, a, r))
    return out


def family_string(shape, runs, variant=0):
    parts = []
    for (cls, run) in zip(shape, runs):
        pool = FAMILY_CLASSES[cls]
        if cls in _PUNCT:
            parts.append(pool[variant % len(pool)] * run)
        else:
            off = variant * 2
            parts.append(''.join(pool[(off + i) % len(pool)]
                                 for i in range(run)))
    return ''.join(parts)


def _dedup(strings):
    out = []
    for x in strings:
        if x not in out:
            out.append(x)
    return out


def family_sets(tier='quick'):
    """One shape, 2-4 strings.  (a) one fragment varies: its run lengths are
    every pair (same and shifted characters), selected triples and
    quadruples (shifted characters) of FAMILY_RUNS, the other fragments have
    run length 2; (b) all fragments vary together, along the diagonal and
    the anti-diagonal, for every pair of run lengths."""
    seen = set()
    pairs = list(itertools.combinations(FAMILY_RUNS, 2))
    for shape in family_shapes():
        k = len(shape)
        for j in range(k):
            for (tuples, modes) in ((pairs, ('same', 'shift')),
                                    (_TRIPLES, ('shift',)),
                                    (_QUADS, ('shift',))):
                for t in tuples:
                    for mode in modes:
                        xs = []
                        for (i, r) in enumerate(t):
                            runs = [_BASE_RUN] * k
                            runs[j] = r
                            xs.append(family_string(
                                shape, runs, i if mode == 'shift' else 0))
                        xs = _dedup(xs)
                        key = tuple(xs)
                        if len(xs) >= 2 and key not in seen:
                            seen.add(key)
                            yield xs
        if k >= 2:
            for (r1, r2) in pairs:
                for anti in (False, True):
                    xs = []
                    for (i, (ra, rb)) in enumerate(((r1, r2), (r2, r1))):
                        runs = [ra] + [rb if anti else ra] * (k - 1)
                        xs.append(family_string(shape, runs, i))
                    xs = _dedup(xs)
                    key = tuple(xs)
                    if len(xs) >= 2 and key not in seen:
                        seen.add(key)
                        yield xs


def _variants_of(shape, j):
    """Shapes that differ from `shape` in the class of fragment j."""
    for c in FAMILY_CLASSES:
        if c == shape[j] or c == 'm' or shape[j] == 'm':
            continue
        if (c in _PUNCT) != (shape[j] in _PUNCT):
            continue
        t = shape[:j] + (c,) + shape[j + 1:]
        if all(t[i] != t[i + 1] for i in range(len(t) - 1)):
            yield t


def two_shape_sets(tier='quick'):
    """Two shapes differing in the class of one fragment (a-f letters vs
    non-hex letters vs upper vs digits; fixed vs varying punctuation), one
    or two strings of each, base run length 1, 2 or 3."""
    seen = set()
    for shape in family_shapes(2):
        k = len(shape)
        for j in range(k):
            for other in _variants_of(shape, j):
                for b in (1, 2, 3):
                    one = [family_string(shape, [b] * k, 0),
                           family_string(other, [b] * k, 1)]
                    two = [family_string(shape, [b] * k, 0),
                           family_string(shape, [b] * k, 1),
                           family_string(other, [b] * k, 0),
                           family_string(other, [b] * k, 1)]
                    for xs in (one, two):
                        xs = _dedup(xs)
                        key = tuple(sorted(xs))
                        if len(xs) >= 2 and key not in seen:
                            seen.add(key)
                            yield xs


def tie_sets(tier='quick'):
    """Two shapes S, T (1-2 fragments each, different class sequences), two
    strings of each with run lengths 2 and 3 in the first or in the last
    fragment and the same characters otherwise (so that the other fragments
    are literal): two expressions of equal frequency.  Both orders (S first,
    T first), and the pair made of the first string of each."""
    shapes = family_shapes(2)
    seen = set()
    for (a, S) in enumerate(shapes):
        for T in shapes[a + 1:]:
            for where in (0, -1):
                def two(shape):
                    out = []
                    for r in (2, 3):
                        runs = [_BASE_RUN] * len(shape)
                        runs[where] = r
                        out.append(family_string(shape, runs, 0))
                    return out
                s2, t2 = two(S), two(T)
                if len(set(s2 + t2)) < 4 or tuple(s2 + t2) in seen:
                    continue
                seen.add(tuple(s2 + t2))
                yield s2 + t2
                yield t2 + s2
                if where == 0:
                    yield [s2[0], t2[0]]
                    yield [t2[0], s2[0]]


def boundary_sets():
    words = [a + b for a in 'gxyz' for b in 'pqw']
    for n in (10, 11, 12):
        yield list(words[:n])
        yield ['K-' + w for w in words[:n]]
        yield [w + '-7' for w in words[:n]]
        yield [w + str(i % 10) * (1 + i % 2) for (i, w) in
               enumerate(words[:n])]
    puncs = '!#%&,/:'
    for n in (4, 5, 6, 7):
        yield list(puncs[:n])
        yield ['a' + c + '1' for c in puncs[:n]]
        yield [c + c for c in puncs[:n]] + [puncs[0]]


_WIDE_SHAPES = [('U', 'p', 'd'), ('d', 'v', 'l'), ('l', 'p', 'U'),
                ('h', 'p', 'd'), ('l', 'd'), ('d', 'U'), ('p', 'd'),
                ('d', 'v'), ('U', 'l', 'd')]
_COUNTER = {
    'd': ['%02d' % i for i in range(16)],
    'l': [a + b for a in 'gxyz' for b in 'pqwz'],
    'h': [a + b for a in 'abcd' for b in 'cdef'],
    'U': [a + b for a in 'ABQX' for b in 'KQXZ'],
}
_WIDEN = {'h': 'l', 'l': 'U', 'U': 'd', 'd': 'l', 'p': 'v', 'v': 'v'}


def wide_sets():
    for shape in _WIDE_SHAPES:
        k = len(shape)
        for c in range(k):                  # the counting fragment
            if shape[c] not in _COUNTER:
                continue
            for j in range(k):              # the constant-but-one fragment
                if j == c:
                    continue
                const = family_string((shape[j],), [2], 0)
                odd_same = family_string((shape[j],), [2], 1)
                odd_wide = family_string((_WIDEN[shape[j]],), [2], 3)
                odds = _dedup([x for x in (odd_same, odd_wide)
                               if x != const])
                others = [family_string((shape[i],), [2], 0)
                          for i in range(k)]
                for K in (10, 11, 12, 13):
                    for odd in odds:
                        for q in range(K):
                            xs = []
                            for i in range(K):
                                parts = list(others)
                                parts[c] = _COUNTER[shape[c]][i]
                                parts[j] = odd if i == q else const
                                xs.append(''.join(parts))
                            if len(set(xs)) == K:
                                yield xs
    puncs = '!#%&,/:'
    for K in (4, 5, 6, 7):
        for rot in range(K):
            chars = [puncs[(rot + i) % K] for i in range(K)]
            yield ['a' + ch + '%d' % i for (i, ch) in enumerate(chars)]
            yield [ch + 'x' for ch in chars]


def fragment_limit_sets():
    def change(s, pos, alt):
        return s[:pos] + alt[s[pos]] + s[pos + 1:]
    alt = {'a': 'b', '-': '.', '1': '2'}
    for unit in ('a-', 'a1'):
        for nfrag in (98, 99, 100, 101):
            base = (unit * (nfrag // 2 + 1))[:nfrag]
            for pos in (0, 1, nfrag // 2, nfrag - 1):
                yield [base, change(base, pos, alt)]


def history_menus():
    words = {'l': ['a', 'b', 'bc', 'cde', 'ab', 'bcd', 'c', 'e', 'ef'],
             'U': ['X', 'Y', 'YY', 'ZZZ', 'XX', 'YZQ', 'Z', 'Q', 'QK'],
             'd': ['1', '2', '23', '345', '12', '234', '3', '5', '56']}
    for sep in (':', '-', '.'):
        for c1 in 'lUd':
            for c2 in 'lUd':
                w1, w2 = words[c1], words[c2]
                A_ = [w1[0] + sep + w2[2], w1[1] + sep + w2[3]]
                B_ = [w1[4] + sep + w2[6], w1[5] + sep + w2[7]]
                C_ = [w1[4] + sep + w2[2], w1[4] + sep + w2[8]]
                yield ('%s%s%s' % (c1, sep, c2), [A_, B_, C_])
    # the same three kinds of set, but each with a different separator: the
    # sets of one menu then contain different subsets of the extra letters
    for seps in (('-', '.', '_'), (':', '-', '_')):
        for c1 in 'lUd':
            for c2 in 'lUd':
                w1, w2 = words[c1], words[c2]
                A_ = [w1[0] + seps[0] + w2[2], w1[1] + seps[0] + w2[3]]
                B_ = [w1[4] + seps[1] + w2[6], w1[5] + seps[1] + w2[7]]
                C_ = [w1[4] + seps[2] + w2[2], w1[4] + seps[2] + w2[8]]
                yield ('%s%s%s' % (c1, ''.join(seps), c2), [A_, B_, C_])


def _history_points():
    pts = []
    for el in (None, '.', '-', '_-.'):
        for tag in (False, True):
            for d in ('portable', 'perl', 'grep'):
                o = dict(DEFAULT_OPTIONS)
                o.update({'extra_letters': el, 'tag': tag, 'dialect': d})
                pts.append(o)
    return pts


HISTORY_OPTION_POINTS = _history_points()


def _family_points():
    pts = []
    for vlf in (False, True):
        for extra in ({}, {'tag': True}, {'dialect': 'perl'},
                      {'dialect': 'grep'}, {'extra_letters': '-'},
                      {'extra_letters': '_-.'}):
            o = dict(DEFAULT_OPTIONS)
            o['variableLengthFrags'] = vlf
            o.update(extra)
            pts.append(o)
    return pts


FAMILY_OPTION_POINTS = _family_points()


# ===================================================================== round 3
# Additions only (nothing above changes).
#
#   UCLASS_REPS       [(char, label)]: one representative of EVERY Unicode
#                     general category (Cs excluded: lone surrogates are
#                     outside), with a second one wherever the category is
#                     split by a predicate that decides a class somewhere:
#                     str.isspace / isdigit / isalpha / isalnum, `re` \s \w \d
#                     and the third-party `regex` module's \s \w \d (tdda's
#                     relib prefers `regex`; the property reads the result
#                     with `re`).  The disagreement set was computed by a scan
#                     of the BMP (2025-09, CPython 3 `re` vs regex):
#                       \s  : Cc U+001C..U+001F         (re yes, regex no)
#                       \w  : Mn Mc Me Pc, Cf U+200C/D, Alphabetic So
#                             (U+24B6..), Cn skew      (regex yes, re no)
#                             No                        (re yes, regex no)
#                       \d vs str.isdigit: No U+00B2... (isdigit, not \d)
#                     plus two astral characters.
#   uclass_sets()     example sets that put every representative (a) alone,
#                     doubled, after a letter; (b) in a VARIABLE fragment (run
#                     lengths 1 and 2; beside a varying letter); (c) at the
#                     same position as every other representative (all pairs:
#                     one shape with a non-constant fragment when the two fall
#                     in one coarse class, two shapes otherwise)
#   META_ROLE_STRINGS examples in which every regex metacharacter appears in
#                     every syntactic role it can play in a regular
#                     expression: quantifier braces after a character / at
#                     the start / after a class, group openers (?: (?P< (?= (?#
#                     (?i), bracket expressions (open, closed, negated,
#                     range, POSIX class, set-operation doubles), escapes
#                     (class, back-reference, anchor, octal, trailing), anchors
#                     in the middle, alternation, * + ? after a character /
#                     doubled / lazy / possessive / leading, verbose-mode '#'
#   meta_role_sets()  each such string alone and with same-shape partners that
#                     keep the metacharacters constant and vary the letters /
#                     the digits / a prefix / a suffix around them
#   EXTRA_AXES        full_escape [False, True]: an extract() option outside
#                     the 240-point lattice, enumerated only where named
#   META_OPTION_POINTS  {default, tag, perl, grep, el='-', el='_-.'} with
#                     variableLengthFrags off, {default, el='_-.'} with it
#                     on: 8 points x full_escape off/on
#   DICT_FORMS        ('dict', 'counter', 'odict') mapping forms of a
#                     frequency dictionary
#   count_vectors(n, full)  count vectors over {1,2,3}: all 3^n when `full`,
#                     else the uniform ones and the two cycles
#   zero_count_dicts(pool1, pool2)
#                     frequency dictionaries with zero-count entries: {s:0},
#                     {s:0,t:0}, and every ORDERED pair with exactly one zero
#                     ({s:0,t:n}, {s:n,t:0}; n in {1,2}); a zero-count entry
#                     was supplied zero times and is not an example
#   REAL_SEEDS / REAL_PRESTATES   the layer run on the REAL random module:
#                     seeds {0, 1, None}, global generator pre-states
#                     random.Random(k).getstate() for k in REAL_PRESTATES,
#                     REAL_OPTION_POINTS {default, extra_letters '_-.'}

UCLASS_REPS = [(chr(cp), label) for (cp, label) in [
    (0x01C5, 'Lt'), (0x02B0, 'Lm'), (0x05D0, 'Lo'), (0x4E00, 'Lo-numeric'),
    (0x0301, 'Mn'), (0x0903, 'Mc'), (0x0488, 'Me'),
    (0x2167, 'Nl'), (0x00B2, 'No-isdigit'), (0x00BD, 'No'),
    (0x203F, 'Pc'), (0x2013, 'Pd'), (0x2045, 'Ps'), (0x2046, 'Pe'),
    (0x00AB, 'Pi'), (0x00BB, 'Pf'), (0x00A1, 'Po'),
    (0x00D7, 'Sm'), (0x20AC, 'Sc'), (0x00A8, 'Sk'), (0x00A9, 'So'),
    (0x24B6, 'So-alphabetic'),
    (0x00A0, 'Zs'), (0x3000, 'Zs-wide'), (0x2028, 'Zl'), (0x2029, 'Zp'),
    (0x001C, 'Cc-isspace'), (0x001F, 'Cc-isspace2'), (0x0085, 'Cc-NEL'),
    (0x007F, 'Cc'), (0x200C, 'Cf-joiner'), (0x00AD, 'Cf'),
    (0xE000, 'Co'), (0x0378, 'Cn'), (0x088F, 'Cn-skew'),
    (0x1D7CE, 'Nd-astral'), (0x1F600, 'So-astral'),
]]
assert len(set(c for (c, _) in UCLASS_REPS)) == len(UCLASS_REPS)


def uclass_sets():
    chars = [c for (c, _) in UCLASS_REPS]
    for c in chars:
        yield [c]
        yield [c + c]
        yield ['a' + c]
        yield [c, c + c]
        yield ['a' + c, 'b' + c]
        yield ['a' + c + 'b', 'c' + c + c + 'd']
        yield [c + '1', c + c + '22']
    for (i, c1) in enumerate(chars):
        for c2 in chars[i + 1:]:
            yield ['a' + c1 + '1', 'b' + c2 + '2']


META_ROLE_STRINGS = [
    # braces
    '{', '}', '{}', '{2}', 'a{', 'a}', 'a{2}', 'row{2}', 'x{1,3}y', 'a{,3}',
    'a{3,}', 'a{b}', '{a}', 'k{0}', 'ab{2}{3}', '1{2}', '-{2}', 'a{2}?',
    'a{ 2}', '{"id": 12}',
    # parentheses
    '(', ')', '()', '(a)', 'a(', 'a)', '(?:a)', '(?:', '(?P<n>a)', '(?P<',
    '(?P=n)', '(?=a)', '(?!a)', '(?<=a)b', '(?#c)', '(?i)a', 'a(?i)', '(?',
    '(a)(b)', '((a))', '(a|b)',
    # brackets
    '[', ']', '[]', '[a-', '[a-z]', '[^a]', '[a', 'a]', 'a[', '[]a]',
    '[[:alpha:]]', '[a-z]+', '[z-a]', '[\\d]', 'a[[b', 'a&&b', 'a--b',
    'a~~b', 'a||b',
    # backslash
    '\\', '\\\\', 'a\\', '\\d', '\\D+', '\\w+', '\\s', '\\1', '(a)\\1',
    '\\b', 'a\\Z', '\\A', '\\n', '\\0', '\\x41', '\\u0041', '\\.', '\\q',
    '\\g<1>', '\\N{DASH}',
    # anchors
    '$', '^', 'a$', '$a', 'a$b', '^a', 'a^', 'a^b', '^a$', '^$', '$^',
    # alternation
    '|', 'a|b', 'a|', '|a', 'a||',
    # repetition
    '*', '+', '?', 'a*', 'a+', 'a?', 'a*?', 'a+?', 'a??', 'a*+', 'a++',
    'a?+', 'a**', '*a', '+a', '?a', '.*', '.+', 'a.b', '.', '1+1', '2*3',
    # verbose-mode comment, quotes
    'a#b', ' #c', '#', 'a #', '"a"', "'a'",
]
assert len(set(META_ROLE_STRINGS)) == len(META_ROLE_STRINGS)

_LETTER_SHIFT = dict(zip('abcknqrowxyzidZAPD', 'bcdlmrsvpyzwjeYBQE'))
_DIGIT_SHIFT = dict(zip('0123456789', '1234567890'))


def _shift(s, table):
    return ''.join(table.get(c, c) for c in s)


def meta_role_sets():
    seen = set()
    for s in META_ROLE_STRINGS:
        for xs in ([s], [s, _shift(s, _LETTER_SHIFT)],
                   [s, _shift(s, _DIGIT_SHIFT)], [s, 'q' + s], [s, s + 'q'],
                   [s, s + s]):
            xs = _dedup(xs)
            key = tuple(xs)
            if key in seen or (len(xs) < 2 and xs[0] != s):
                continue
            seen.add(key)
            yield xs


EXTRA_AXES = OrderedDict([('full_escape', [False, True])])
_SHORT['full_escape'] = 'fullesc'


def _meta_points():
    # variableLengthFrags on: only with the default and the 3-extra-letter
    # point (dialect and tag do not interact with it in the literal route)
    return [dict(o, full_escape=fe) for fe in (False, True)
            for o in FAMILY_OPTION_POINTS
            if not o['variableLengthFrags']
            or n_deviations(o) == 1 or o['extra_letters'] == '_-.']


META_OPTION_POINTS = _meta_points()

DICT_FORMS = ('dict', 'counter', 'odict')


def as_mapping(d, form):
    """The mapping `d` ({str: int}, ordered) as dict / Counter / OrderedDict."""
    import collections
    if form == 'dict':
        return dict(d)
    if form == 'counter':
        c = collections.Counter()
        for (k, v) in d.items():
            c[k] = v                # keeps zero counts, unlike update()
        return c
    if form == 'odict':
        return OrderedDict(d)
    raise ValueError(form)


def count_vectors(n, full=False):
    if full:
        return [list(t) for t in itertools.product((1, 2, 3), repeat=n)]
    out = [[k] * n for k in (1, 2, 3)]
    out.append([(1, 2, 3)[i % 3] for i in range(n)])
    out.append([(3, 2, 1)[i % 3] for i in range(n)])
    return out


def with_counts(xs, counts):
    d = OrderedDict()
    for (x, n) in zip(xs, counts):
        d[x] = n
    return d


def zero_count_dicts(pool1, pool2):
    for s in pool1:
        yield OrderedDict([(s, 0)])
    for (i, s) in enumerate(pool2):
        for (j, t) in enumerate(pool2):
            if i == j:
                continue
            if i < j:
                yield OrderedDict([(s, 0), (t, 0)])
            for n in (1, 2):
                yield OrderedDict([(s, 0), (t, n)])
                yield OrderedDict([(s, n), (t, 0)])


REAL_SEEDS = [0, 1, None]
REAL_PRESTATES = [11, 12]
REAL_OPTION_POINTS = [{}, {'extra_letters': '_-.'}]
