# -*- coding: utf-8 -*-
"""
Seams for the rexpy properties (C03 C13 C14 C18) - DESIGN §2.2.

rexpy consults the global PRNG through the module attribute
`tdda.rexpy.rexpy.random` (random.sample / seed / getstate / setstate).
Assigning a FakeRandom there puts every answer of the PRNG under the control
of the E2 choice-point explorer (mc.engine.explore_choices); no tdda source
is changed.

API
---
  FakeRandom(chooser=None, order='canonical')
      .sample(population, k)   a choice point: chooser.choose(C(n,k)) picks
                               one of ALL k-subsets of the population, in
                               itertools.combinations order of positions.
                               Returned as a list in population order
                               ('canonical') or reversed ('reversed').
                               k > n or k < 0 raises ValueError like
                               random.sample.  With chooser=None subset 0 is
                               returned (and still logged).
      .seed(n) .getstate() .setstate(s)
                               recorded; the state is an opaque token
                               ('fake-state', version).  Every seed() and
                               every sample() moves to a fresh version, so
                               "state after == state before" is checkable:
                               fake.state_token() == token taken earlier.
      .log                     list of events, in call order:
                               ('getstate', version) ('seed', n, version)
                               ('sample', n, k, index, version)
                               ('setstate', version)
      .n_samples               number of sample() calls
      .samples_outside_bracket()
                               indices into .log of sample events that are
                               not between a seed(n) and the next setstate
                               (for C14's bracketing invariant)
      any other attribute      AttributeError naming the attribute (a new use
                               of the PRNG must be modelled, not ignored)
  patched_random(fake)         context manager: installs `fake` as
                               tdda.rexpy.rexpy.random, restores on exit
  real_random(key)             context manager for the layers that run on the
                               REAL random module: global generator set to
                               random.Random(key).getstate(), restored on exit
  set_real_state(key)          ditto, without the bracket (inside real_random)
  real_state_token()           short hash of the global generator state
  reset_rexpy_state()          clears tdda.rexpy.rexpy.memo and nCalls (the
                               only module-level state a later call can see)
  make_size(setting)           tdda Size(**setting) (None -> None)
  ModuleState(module)          state found BY INTROSPECTION: every
                               module-level value, every class attribute of a
                               class defined in the module, and every mutable
                               default argument (func.__defaults__ /
                               __kwdefaults__) of every function and method
                               defined in the module.  Taken once (pristine
                               state, after import).
      .restore()               put all of it back (rebinding names, restoring
                               container contents in place, deleting names
                               that appeared since): a fresh module state
                               without re-importing
      .fingerprint()           short hash of the current contents (dict keys
                               sorted; integer counters such as nCalls are
                               left out: write-only, never read by rexpy)
      .slots()                 labels of the state-carrying slots found
"""
import contextlib
import itertools
import math


class FakeRandom(object):
    def __init__(self, chooser=None, order='canonical'):
        assert order in ('canonical', 'reversed')
        self.chooser = chooser
        self.order = order
        self.log = []
        self.n_samples = 0
        self._version = 0
        self._next = 1

    # -- state tokens
    def _fresh(self):
        self._version = self._next
        self._next += 1
        return self._version

    def state_token(self):
        return ('fake-state', self._version)

    def getstate(self):
        self.log.append(('getstate', self._version))
        return ('fake-state', self._version)

    def setstate(self, state):
        if not (isinstance(state, tuple) and len(state) == 2
                and state[0] == 'fake-state'):
            raise TypeError('FakeRandom.setstate: not a state obtained from '
                            'getstate(): %r' % (state,))
        self._version = state[1]
        self.log.append(('setstate', self._version))

    def seed(self, n=None):
        v = self._fresh()
        self.log.append(('seed', n, v))

    # -- the choice point
    def sample(self, population, k):
        pop = list(population)
        n = len(pop)
        if not isinstance(k, int) or k < 0 or k > n:
            raise ValueError('Sample larger than population or is negative')
        count = math.comb(n, k)
        if self.chooser is not None and count > 1:
            idx = self.chooser.choose(count)
        else:
            idx = 0
        positions = nth_combination(n, k, idx)
        self.n_samples += 1
        v = self._fresh()
        self.log.append(('sample', n, k, idx, v))
        out = [pop[i] for i in positions]
        if self.order == 'reversed':
            out.reverse()
        return out

    def samples_outside_bracket(self):
        bad = []
        inside = False
        for i, e in enumerate(self.log):
            if e[0] == 'seed':
                inside = True
            elif e[0] == 'setstate':
                inside = False
            elif e[0] == 'sample' and not inside:
                bad.append(i)
        return bad

    def __getattr__(self, name):
        raise AttributeError('FakeRandom: rexpy used random.%s, which the '
                             'seam does not model' % name)


def nth_combination(n, k, index):
    """The index-th k-subset of range(n) in itertools.combinations order."""
    # (the unranking recipe of the itertools documentation)
    pool = tuple(range(n))
    r = k
    c = math.comb(n, r)
    if index < 0 or index >= c:
        raise IndexError(index)
    result = []
    while r:
        c, n, r = c * r // n, n - 1, r - 1
        while index >= c:
            index -= c
            c, n = c * (n - r) // n, n - 1
        result.append(pool[-1 - n])
    return tuple(result)


@contextlib.contextmanager
def patched_random(fake):
    import tdda.rexpy.rexpy as rx
    saved = rx.random
    rx.random = fake
    try:
        yield fake
    finally:
        rx.random = saved


@contextlib.contextmanager
def real_random(key):
    """The REAL random module stays in place (no seam): the process-wide
    generator is put into the state of random.Random(key) - a fixed,
    reproducible pre-state - and the state found on entry is put back on exit
    (harness hygiene: later cases must not depend on this one)."""
    import random
    saved = random.getstate()
    set_real_state(key)
    try:
        yield random
    finally:
        random.setstate(saved)


def set_real_state(key):
    import random
    random.setstate(random.Random(key).getstate())


def real_state_token():
    """Short hash of the process-wide generator's state."""
    import hashlib
    import random
    return hashlib.sha1(repr(random.getstate()).encode('ascii')
                        ).hexdigest()[:12]


def reset_rexpy_state():
    import tdda.rexpy.rexpy as rx
    memo = getattr(rx, 'memo', None)
    if isinstance(memo, dict):
        memo.clear()
    if hasattr(rx, 'nCalls'):
        rx.nCalls = 0


def make_size(setting):
    if setting is None:
        return None
    import tdda.rexpy.rexpy as rx
    return rx.Size(**setting)


# ------------------------------------------------------------------ state

_CONTAINERS = (dict, list, set, bytearray)


def _is_container(v):
    import array
    import collections
    return isinstance(v, _CONTAINERS + (array.array, collections.deque))


def _copy_container(v):
    import copy
    try:
        return copy.deepcopy(v)
    except Exception:               # noqa - uncopyable element: shallow
        return copy.copy(v)


def _restore_container(live, saved):
    import copy
    fresh = _copy_container(saved)
    if isinstance(live, dict):
        live.clear()
        live.update(fresh)
    elif isinstance(live, set):
        live.clear()
        live.update(fresh)
    else:
        del live[:]
        live.extend(fresh)


def _canon(v, depth=0):
    if depth > 4:
        return '...'
    if isinstance(v, dict):
        return '{%s}' % ','.join(sorted('%s:%s' % (_canon(k, depth + 1),
                                                   _canon(x, depth + 1))
                                        for (k, x) in v.items()))
    if isinstance(v, (set, frozenset)):
        return 'set(%s)' % ','.join(sorted(_canon(x, depth + 1) for x in v))
    if isinstance(v, (list, tuple)):
        return '[%s]' % ','.join(_canon(x, depth + 1) for x in v)
    r = repr(v)
    if ' at 0x' in r:               # object identity is not state
        r = type(v).__name__
    return r


class ModuleState(object):
    def __init__(self, module):
        import inspect
        self.module = module
        self.names = {}         # module-level name -> object bound at start
        self.containers = []    # (label, live object, saved copy)
        name = module.__name__
        for (k, v) in list(vars(module).items()):
            if k.startswith('__') or inspect.ismodule(v):
                continue
            self.names[k] = v
            if _is_container(v):
                self._add('global %s' % k, v)
            elif inspect.isclass(v) and v.__module__ == name:
                for (a, x) in list(vars(v).items()):
                    if _is_container(x):
                        self._add('class %s.%s' % (k, a), x)
                    f = getattr(x, '__func__', x)
                    if inspect.isfunction(f):
                        self._defaults('%s.%s' % (k, a), f)
            elif inspect.isfunction(v) and v.__module__ == name:
                self._defaults(k, v)
        self.class_attrs = {}
        for (k, v) in self.names.items():
            if inspect.isclass(v) and v.__module__ == name:
                self.class_attrs[k] = dict(
                    (a, x) for (a, x) in vars(v).items()
                    if not a.startswith('__') and not callable(x)
                    and not isinstance(x, (staticmethod, classmethod,
                                           property)))

    def _add(self, label, obj):
        if any(o is obj for (_, o, _) in self.containers):
            return
        self.containers.append((label, obj, _copy_container(obj)))

    def _defaults(self, label, f):
        for (i, d) in enumerate(f.__defaults__ or ()):
            if _is_container(d):
                self._add('default %s[%d]' % (label, i), d)
        for (k, d) in (f.__kwdefaults__ or {}).items():
            if _is_container(d):
                self._add('kwdefault %s.%s' % (label, k), d)

    def slots(self):
        return [label for (label, _, _) in self.containers]

    def restore(self):
        import inspect
        m = self.module
        for k in list(vars(m)):
            if k.startswith('__') or inspect.ismodule(vars(m)[k]):
                continue
            if k not in self.names:
                delattr(m, k)
        for (k, v) in self.names.items():
            if vars(m).get(k, None) is not v:
                setattr(m, k, v)
        for (k, attrs) in self.class_attrs.items():
            cls = self.names[k]
            for a in list(vars(cls)):
                if a.startswith('__') or callable(vars(cls)[a]) or \
                        isinstance(vars(cls)[a], (staticmethod, classmethod,
                                                  property)):
                    continue
                if a not in attrs:
                    delattr(cls, a)
            for (a, x) in attrs.items():
                if vars(cls).get(a, None) is not x:
                    setattr(cls, a, x)
        for (label, live, saved) in self.containers:
            _restore_container(live, saved)

    def fingerprint(self):
        import hashlib
        import inspect
        parts = []
        m = self.module
        for (k, v) in sorted(vars(m).items()):
            if k.startswith('__') or inspect.ismodule(v) or callable(v):
                continue
            if isinstance(v, int) and not isinstance(v, bool):
                continue
            if _is_container(v) and any(o is v for (_, o, _)
                                        in self.containers):
                continue
            parts.append('%s=%s' % (k, _canon(v)))
        for (label, live, _) in self.containers:
            parts.append('%s=%s' % (label, _canon(live)))
        for (k, attrs) in sorted(self.class_attrs.items()):
            cls = self.names[k]
            for (a, x) in sorted(vars(cls).items()):
                if a.startswith('__') or callable(x) or _is_container(x) or \
                        isinstance(x, (staticmethod, classmethod, property)):
                    continue
                parts.append('%s.%s=%s' % (k, a, _canon(x)))
        return hashlib.sha1('\n'.join(parts).encode('utf-8', 'replace')
                            ).hexdigest()[:12]
