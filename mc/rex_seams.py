# -*- coding: utf-8 -*-
"""
Seams for the rexpy properties (C03 C13 C14 C18) - DESIGN §2.2.

rexpy consults the global PRNG through the module attribute
`tdda.rexpy.rexpy.random` (random.sample / seed / getstate / setstate).
Assigning a FakeRandom there puts every answer of the PRNG under the control
of the E2 choice-point explorer (mc.engine.explore_choices); no tdda source
is changed.

API
---
  FakeRandom(chooser=None, order='canonical')
      .sample(population, k)   a choice point: chooser.choose(C(n,k)) picks
                               one of ALL k-subsets of the population, in
                               itertools.combinations order of positions.
                               Returned as a list in population order
                               ('canonical') or reversed ('reversed').
                               k > n or k < 0 raises ValueError like
                               random.sample.  With chooser=None subset 0 is
                               returned (and still logged).
      .seed(n) .getstate() .setstate(s)
                               recorded; the state is an opaque token
                               ('fake-state', version).  Every seed() and
                               every sample() moves to a fresh version, so
                               "state after == state before" is checkable:
                               fake.state_token() == token taken earlier.
      .log                     list of events, in call order:
                               ('getstate', version) ('seed', n, version)
                               ('sample', n, k, index, version)
                               ('setstate', version)
      .n_samples               number of sample() calls
      .samples_outside_bracket()
                               indices into .log of sample events that are
                               not between a seed(n) and the next setstate
                               (for C14's bracketing invariant)
      any other attribute      AttributeError naming the attribute (a new use
                               of the PRNG must be modelled, not ignored)
  patched_random(fake)         context manager: installs `fake` as
                               tdda.rexpy.rexpy.random, restores on exit
  reset_rexpy_state()          clears tdda.rexpy.rexpy.memo and nCalls (the
                               only module-level state a later call can see)
  make_size(setting)           tdda Size(**setting) (None -> None)
"""
import contextlib
import itertools
import math


class FakeRandom(object):
    def __init__(self, chooser=None, order='canonical'):
        assert order in ('canonical', 'reversed')
        self.chooser = chooser
        self.order = order
        self.log = []
        self.n_samples = 0
        self._version = 0
        self._next = 1

    # -- state tokens
    def _fresh(self):
        self._version = self._next
        self._next += 1
        return self._version

    def state_token(self):
        return ('fake-state', self._version)

    def getstate(self):
        self.log.append(('getstate', self._version))
        return ('fake-state', self._version)

    def setstate(self, state):
        if not (isinstance(state, tuple) and len(state) == 2
                and state[0] == 'fake-state'):
            raise TypeError('FakeRandom.setstate: not a state obtained from '
                            'getstate(): %r' % (state,))
        self._version = state[1]
        self.log.append(('setstate', self._version))

    def seed(self, n=None):
        v = self._fresh()
        self.log.append(('seed', n, v))

    # -- the choice point
    def sample(self, population, k):
        pop = list(population)
        n = len(pop)
        if not isinstance(k, int) or k < 0 or k > n:
            raise ValueError('Sample larger than population or is negative')
        count = math.comb(n, k)
        if self.chooser is not None and count > 1:
            idx = self.chooser.choose(count)
        else:
            idx = 0
        positions = nth_combination(n, k, idx)
        self.n_samples += 1
        v = self._fresh()
        self.log.append(('sample', n, k, idx, v))
        out = [pop[i] for i in positions]
        if self.order == 'reversed':
            out.reverse()
        return out

    def samples_outside_bracket(self):
        bad = []
        inside = False
        for i, e in enumerate(self.log):
            if e[0] == 'seed':
                inside = True
            elif e[0] == 'setstate':
                inside = False
            elif e[0] == 'sample' and not inside:
                bad.append(i)
        return bad

    def __getattr__(self, name):
        raise AttributeError('FakeRandom: rexpy used random.%s, which the '
                             'seam does not model' % name)


def nth_combination(n, k, index):
    """The index-th k-subset of range(n) in itertools.combinations order."""
    # (the unranking recipe of the itertools documentation)
    pool = tuple(range(n))
    r = k
    c = math.comb(n, r)
    if index < 0 or index >= c:
        raise IndexError(index)
    result = []
    while r:
        c, n, r = c * r // n, n - 1, r - 1
        while index >= c:
            index -= c
            c, n = c * (n - r) // n, n - 1
        result.append(pool[-1 - n])
    return tuple(result)


@contextlib.contextmanager
def patched_random(fake):
    import tdda.rexpy.rexpy as rx
    saved = rx.random
    rx.random = fake
    try:
        yield fake
    finally:
        rx.random = saved


def reset_rexpy_state():
    import tdda.rexpy.rexpy as rx
    memo = getattr(rx, 'memo', None)
    if isinstance(memo, dict):
        memo.clear()
    if hasattr(rx, 'nCalls'):
        rx.nCalls = 0


def make_size(setting):
    if setting is None:
        return None
    import tdda.rexpy.rexpy as rx
    return rx.Size(**setting)
