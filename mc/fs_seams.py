"""
Filesystem observation seams (DESIGN.md section 2.4).

  * FsLog: a sys.addaudithook based log of every file *mutation* issued by
    Python code (open for writing, os.open with write/create flags, remove,
    unlink, rename, replace, mkdir, rmdir, truncate, link, symlink, chmod,
    utime, shutil copy/move/rmtree, tempfile.mkstemp/mkdtemp).  An audit hook can never be
    removed, so one hook is installed once per process and is switched on for
    the duration of one operation with `with FSLOG.record() as events:`.
    While off it costs one attribute test per audited event.

  * snapshot(dir) / snapshot_diff(a, b): name, size, sha1, mtime_ns, inode of
    every file below a directory - catches writes that bypass the hook
    (native code such as pyarrow) and content changes through already open
    descriptors.

Nothing here imports tdda.
"""
import hashlib
import os
import sys

_WRITE_FLAGS = (os.O_WRONLY | os.O_RDWR | os.O_CREAT | os.O_TRUNC
                | os.O_APPEND)

# audit event -> indices of the path arguments it mutates
_PATH_EVENTS = {
    'os.remove': (0,), 'os.unlink': (0,), 'os.rmdir': (0,),
    'os.mkdir': (0,), 'os.rename': (0, 1), 'os.replace': (0, 1),
    'os.truncate': (0,), 'os.link': (1,), 'os.symlink': (1,),
    'os.chmod': (0,), 'os.chown': (0,), 'os.utime': (0,),
    'os.mkfifo': (0,), 'os.mknod': (0,), 'os.setxattr': (0,),
    'os.removexattr': (0,),
    'shutil.copyfile': (1,), 'shutil.copymode': (1,),
    'shutil.copystat': (1,), 'shutil.copytree': (1,),
    'shutil.move': (0, 1), 'shutil.rmtree': (0,),
    'shutil.make_archive': (0,), 'shutil.unpack_archive': (1,),
    'tempfile.mkstemp': (0,), 'tempfile.mkdtemp': (0,),
}


def _pathstr(p):
    if isinstance(p, bytes):
        try:
            p = os.fsdecode(p)
        except Exception:
            p = repr(p)
    if isinstance(p, int):
        return '<fd %d>' % p
    try:
        p = os.fspath(p)
    except TypeError:
        return repr(p)
    if isinstance(p, bytes):
        p = os.fsdecode(p)
    return os.path.normpath(os.path.join(os.getcwd(), p))


class FsLog(object):
    """Process-wide mutation log.  Use the module singleton FSLOG."""

    def __init__(self):
        self.active = False
        self.events = None
        self.installed = False

    def install(self):
        if not self.installed:
            sys.addaudithook(self._hook)
            self.installed = True
        return self

    # the hook must never raise
    def _hook(self, event, args):
        if not self.active:
            return
        try:
            if event == 'open':
                path, mode, flags = args[0], args[1], args[2]
                writing = False
                if isinstance(mode, str):
                    writing = any(c in mode for c in 'wax+')
                if isinstance(flags, int) and flags & _WRITE_FLAGS:
                    writing = True
                if writing and not isinstance(path, int):
                    self.events.append(('open-write', _pathstr(path)))
            else:
                idx = _PATH_EVENTS.get(event)
                if idx is not None:
                    for i in idx:
                        if i < len(args) and args[i] is not None:
                            self.events.append((event, _pathstr(args[i])))
        except Exception as e:           # pragma: no cover
            try:
                self.events.append(('hook-error', repr(e)))
            except Exception:
                pass

    def record(self):
        return _Recording(self)


class _Recording(object):
    def __init__(self, log):
        self.log = log
        self.events = []

    def __enter__(self):
        self.log.install()
        self.prev = (self.log.active, self.log.events)
        self.log.events = self.events
        self.log.active = True
        return self.events

    def __exit__(self, *exc):
        self.log.active, self.log.events = self.prev
        return False


FSLOG = FsLog()


def inside(path, directory):
    """True iff path is directory itself or below it (normalised, no
    symlink games: the sandboxes are plain directories)."""
    d = os.path.normpath(directory)
    p = os.path.normpath(path)
    return p == d or p.startswith(d + os.sep)


def snapshot(directory):
    """{relative path: (size, sha1, mtime_ns, inode)} for every file below
    directory; directories are recorded as ('dir',)."""
    out = {}
    if not os.path.isdir(directory):
        return out
    for root, dirs, files in os.walk(directory):
        dirs.sort()
        for d in dirs:
            out[os.path.relpath(os.path.join(root, d), directory) + os.sep] = \
                ('dir',)
        for f in sorted(files):
            p = os.path.join(root, f)
            try:
                st = os.lstat(p)
                with open(p, 'rb') as fh:
                    h = hashlib.sha1(fh.read()).hexdigest()
                out[os.path.relpath(p, directory)] = (st.st_size, h,
                                                      st.st_mtime_ns,
                                                      st.st_ino)
            except OSError as e:
                out[os.path.relpath(p, directory)] = ('unreadable', str(e))
    return out


def snapshot_diff(before, after):
    """Sorted list of (what, relative path): created / removed / changed."""
    out = []
    for k in sorted(set(before) | set(after)):
        if k not in before:
            out.append(('created', k))
        elif k not in after:
            out.append(('removed', k))
        elif before[k] != after[k]:
            out.append(('changed', k))
    return out
