"""
Column families and frame enumeration of DESIGN.md section 3.1.

A *case description* is plain JSON:

    frame  := {"cols": [column, ...]}
    column := {"name": str, "fam": family-name, "v": [cell, ...]}
    cell   := None                      the null of the family
            | bool | int | float | str  the value itself
            | "inf" | "-inf"            non-finite floats (float families only)
            | "YYYY-MM-DDTHH:MM:SS[.f{1,9}]"   instants (datetime families;
                                        always the UTC instant for tz families)
            | "YYYY-MM-DD"              datetime.date (dateobj family)
            | {"null": flavour}         a specific null object in an object
                                        column: None, nan (float('nan')),
                                        npnan (np.nan), NA (pd.NA), NaT (pd.NaT)

`build_frame(desc)` turns a description into a real pandas DataFrame (a new
object on every call), `plain_column(col)` turns a column into the plain
Python values the reference models work on (see there), `describe(desc)`
gives a short readable text.

Nothing here imports tdda.  Text columns are built explicitly as
dtype=object or Categorical (pandas 3 would otherwise give dtype `str`, which
is outside the properties' type list).
"""
import collections
import datetime
import itertools

NAMES = ['a', 'b c', 'é', 'min', 'a_min_ok', '#x']

T0 = '1999-12-31T23:59:59'
T1 = '2000-01-01T00:00:00'
T2 = '2000-02-29T12:00:00'
FRAC = {'s': '', 'ms': '.999', 'us': '.999999', 'ns': '.999999999'}

STR_VALUES = [None, '', 'a', 'B1', 'é²', "o'q\\", 'x y', '^', '-']

# family -> (pandas dtype string, tdda kind the family is meant to have,
#            value alphabet, short description)
FAMILIES = collections.OrderedDict()


def _fam(name, dtype, kind, values, note=''):
    FAMILIES[name] = {'dtype': dtype, 'kind': kind, 'values': values,
                      'note': note}


_fam('i64', 'int64', 'int', [-2, 0, 1, 3])
_fam('u8', 'uint8', 'int', [0, 1, 255])
_fam('i64x', 'int64', 'int', [-(2 ** 63) + 1, -1, 2 ** 62])
_fam('Int64', 'Int64', 'int', [None, -1, 0, 2], 'nullable integer')
_fam('f64', 'float64', 'real', [None, -1.5, 0.0, 2.0, 2.5])
_fam('f64inf', 'float64', 'real', [None, '-inf', 'inf', 1.0])
_fam('bool', 'bool', 'bool', [True, False])
_fam('boolobj', 'object', 'bool', [None, True, False],
     'object column of Python bools and None')
_fam('boolean', 'boolean', 'bool', [None, True, False], 'nullable boolean')
_fam('strobj', 'object', 'string', STR_VALUES)
_fam('cat', 'category', 'string', [None, 'a', 'B1', 'é²'])
for _u in ('s', 'ms', 'us', 'ns'):
    _fam('dt' + _u, 'datetime64[%s]' % _u, 'date',
         [None, T0 + FRAC[_u], T1, T2])
_fam('dttzutc', 'datetime64[us, UTC]', 'date', [None, T0 + FRAC['us'], T1, T2])
_fam('dttz0530', 'datetime64[us, +05:30]', 'date',
     [None, T0 + FRAC['us'], T1, T2])
_fam('dateobj', 'object', 'date', [None, '1999-12-31', '2000-01-01'],
     'object column of datetime.date')
# tz-aware families over an offset alphabet covering every sign x {whole
# hour, half hour, 45 min, < 1 h} class, plus two named zones whose values
# straddle a daylight-saving transition (St John's: -03:30 / -02:30, London:
# +00:00 / +01:00), at us and ns resolution.  Cells are UTC instants.
TZ_OFFSETS = [('UTC', 'UTC', 0), ('p0530', '+05:30', 330),
              ('p0545', '+05:45', 345), ('m0330', '-03:30', -210),
              ('m0030', '-00:30', -30), ('m0900', '-09:00', -540),
              ('p1400', '+14:00', 840)]
TZ_NAMED = [('stjohns', 'America/St_Johns'), ('london', 'Europe/London')]
TZ_FAMILIES = []
for _u in ('us', 'ns'):
    for (_lab, _tz, _min) in TZ_OFFSETS:
        _n = 'tz%s_%s' % (_u, _lab)
        _fam(_n, 'datetime64[%s, %s]' % (_u, _tz), 'date',
             [None, T0 + FRAC[_u], T1, T2])
        FAMILIES[_n].update(tz=_tz, unit=_u, tzmin=_min,
                            tzclass=('0' if _min == 0 else
                                     ('+' if _min > 0 else '-')
                                     + ('whole' if _min % 60 == 0
                                        else 'frac')))
        TZ_FAMILIES.append(_n)
    for (_lab, _tz) in TZ_NAMED:
        _n = 'tz%s_%s' % (_u, _lab)
        _fam(_n, 'datetime64[%s, %s]' % (_u, _tz), 'date',
             [None, T2, '2000-04-02T05:00:00' + FRAC[_u],
              '2000-06-01T00:00:00'])
        FAMILIES[_n].update(tz=_tz, unit=_u, tzmin=0, tzclass='dst')
        TZ_FAMILIES.append(_n)
FAMILIES['dttzutc'].update(tz='UTC', unit='us', tzmin=0, tzclass='0')
FAMILIES['dttz0530'].update(tz='+05:30', unit='us', tzmin=330,
                            tzclass='+frac')
# families outside the DESIGN table but inside the properties' type list,
# used by the thorough tiers
_fam('u64x', 'uint64', 'int', [0, 2 ** 63, 2 ** 64 - 1], 'extreme unsigned')
_fam('i8', 'int8', 'int', [-128, 0, 127])
_fam('f32', 'float32', 'real', [None, -1.5, 0.0, 2.5])
_fam('catx', 'category', 'string', [None, 'a', 'B1'],
     'categorical that declares categories a, B1, zz9 whether used or not')
# object / categorical columns of structured strings for the rex pipelines
# (built by rex_structured_columns)
_fam('rexs', 'object', 'string', [], 'structured strings')
_fam('rexscat', 'category', 'string', [], 'structured strings, categorical')
# object column of strings, 0..25 distinct values (built by manycat_columns)
_fam('manycat', 'object', 'string', [], 'n distinct strings')

CATX_CATEGORIES = ['a', 'B1', 'zz9']

BASE_FAMILIES = ['i64', 'u8', 'i64x', 'Int64', 'f64', 'f64inf', 'bool',
                 'boolobj', 'boolean', 'strobj', 'cat', 'dts', 'dtms', 'dtus',
                 'dtns', 'dttzutc', 'dttz0530', 'dateobj']
EXTRA_FAMILIES = ['u64x', 'i8', 'f32', 'catx']
MANYCAT_NS = [0, 1, 2, 19, 20, 21, 25]


def manycat_values(n, repeat, null):
    """n distinct strings of lengths 2..3 (v0 .. v24), optionally the first
    one repeated at the end, optionally a null in second position."""
    vals = ['v%d' % i for i in range(n)]
    if repeat and vals:
        vals = vals + [vals[0]]
    if null:
        vals = vals[:1] + [None] + vals[1:]
    return vals


def manycat_columns(name='a', ns=MANYCAT_NS):
    """The 7 x 2 x 2 many-category columns (not a product over values)."""
    for n in ns:
        for repeat in (0, 1):
            for null in (0, 1):
                yield {'name': name, 'fam': 'manycat',
                       'v': manycat_values(n, repeat, null)}


# --------------------------------------------------- structured strings (rex)

# every character rexpy places or escapes specially in a character class or
# in a fixed fragment
REX_PUNCT = ['\\', ']', '[', '^', '-', '/', '.', ':', '*', '+', '?', '$', '|',
             '(', ')', '{', '}', '"', "'", ' ']


def rex_structured_values(thorough=False):
    """Lists of strings for the rex-on pipelines.  Values are prefix + P +
    suffix with P over every ordered pair (quick: unordered triple, thorough:
    ordered triple) of distinct characters of REX_PUNCT, so that every
    special character stands in a VARYING punctuation position next to every
    other one; the same with a fixed ':' in front (a varying run of two);
    the bare characters; punctuation positions with 4..7 distinct characters
    (rexpy: max_punc_in_group = 5); varying letters / digits / mixed;
    optional tails and length ranges either side of MAX_VRLE_RANGE = 2;
    9..13 distinct strings in one position (max_strings_in_group = 10);
    98..101 fragments (MAX_GROUPS = 99); 99..101 distinct values (Size.do_all
    = 100, beyond which rexpy samples); alignment shapes."""
    P = REX_PUNCT
    pre, suf = 'C', 'tmp'
    for p1, p2 in itertools.permutations(P, 2):
        yield [pre + p1 + suf, pre + p2 + suf]
    for p1, p2 in itertools.permutations(P, 2):
        yield [pre + ':' + p1 + suf, pre + ':' + p2 + suf]
    triples = itertools.permutations(P, 3) if thorough \
        else itertools.combinations(P, 3)
    for t in triples:
        yield [pre + p + suf for p in t]
    for p1, p2 in itertools.combinations(P, 2):
        yield [p1, p2]
    for k in (4, 5, 6, 7):
        for i in range(len(P)):
            yield ['a' + P[(i + j) % len(P)] + 'b' for j in range(k)]
    for vals in [
            ['ab-x', 'cd-x'], ['12-x', '34-x'], ['a1-x', 'b2-x'],
            ['ab-x', '12-x'], ['aB-x', 'Cd-x'], ['\u00e9-x', 'a-x'],
            ['ab_x', 'cd_x'], ['a_b', 'a-b'], ['A1', 'b2', 'C3'],
            ['ab', 'ab-x'], ['ab-x', 'ab-x-y'], ['a', 'ab', 'abc'],
            ['a', 'abc'], ['a', 'abcd'], ['1', '123'], ['1', '1234'],
            ['1', '12', '123', '1234'], ['', 'a-b'], ['a-b', ''],
            ['a-b', 'c-d-e'], ['1.2.3', '1.2'], ['x_y', 'x_y_z'],
            [' a ', 'b'], ['a b', 'a  b', 'a    b'],
            ['a@b.c', 'dd@ee.ff'], ['EH1 1AA', 'G12 8QQ', 'SW1A 2AA'],
            ['(0131) 123', '(020) 4567'], ['C:\\tmp', 'C:/tmp'],
            ['a\\b', 'a/b'], ['\\\\srv\\x', '//srv/x'],
            ['a\nb', 'a-b'], ['a\tb', 'a b'], ['"a"', "'a'"],
            ['[a]', '(a)', '{a}'], ['a^b', 'a-b', 'a]b'],
            ['$1', '$22', '$333'], ['1+1', '2*2', '3?3'],
            ['a|b', 'a||b'], ['^a$', '^b$']]:
        yield vals
    for n in (9, 10, 11, 12, 13):
        yield ['id-%02d' % (7 * i + 3) for i in range(n)]
        yield ['%s%s/x' % ('abcdefghijklm'[i], 'nopqrstuvwxyz'[i])
               for i in range(n)]
        yield [P[i % len(P)] + 'q%02d' % i for i in range(n)]
    for k in (49, 50):
        yield ['a-' * k, 'b-' * k]
        yield ['a-' * k + 'a']
        yield ['a-' * k + 'a', 'b.' * k + 'b']
    for n in (99, 100, 101):
        yield ['v%03d' % i for i in range(n)]
        yield ['%s-%03d' % ('xy'[i % 2], i) for i in range(n)]


def rex_structured_columns(thorough=False, name='a', fam='rexs'):
    for vals in rex_structured_values(thorough):
        yield {'name': name, 'fam': fam, 'v': vals}


# ----------------------------------------------- run lengths (rex pipelines)

RUN_CHARS = ['0', '5', 'a', '-', ' ']
RUN_PREFIXES = ['', 'ID']
# nothing / a digit above and below '5' / a letter below and above 'a' /
# punctuation then a letter / punctuation sorting below everything
RUN_SUFFIXES = ['', '1', '7', 'B', 'b', '-z', '!']
RUN_LENGTHS = [0, 1, 2, 3, 4]


def run_length_values(thorough=False):
    """String columns in which ONE character is repeated a varying number
    of times: prefix + c * n + suffix for n over EVERY subset (>= 2
    members) of the run lengths 0..4 (thorough 0..5), c over digits /
    letters / punctuation / space, with nothing, a same-class character sorting above or below c, a
    character of the other alphanumeric class or punctuation behind the run
    (tdda hands rexpy the SORTED distinct values, so what follows the run
    decides whether the shortest or the longest run arrives first), with
    and without an alphanumeric prefix.  Then two runs varying in one value
    (c1 * i + c2 * j for every 3-subset of the 3 x 3 grid of (i, j))."""
    lengths = RUN_LENGTHS + ([5] if thorough else [])
    subsets = [s for k in range(2, len(lengths) + 1)
               for s in itertools.combinations(lengths, k)]
    for c in RUN_CHARS:
        for pre in RUN_PREFIXES:
            for suf in RUN_SUFFIXES:
                if suf[:1] == c:
                    continue            # would lengthen the run itself
                for lens in subsets:
                    yield [pre + c * n + suf for n in lens]
    grid = [(i, j) for i in (1, 2, 3) for j in (1, 2, 3)]
    for (c1, c2) in (('a', 'b'), ('b', 'a'), ('0', '7'), ('a', '1'),
                     ('-', 'a')):
        for pts in itertools.combinations(grid, 3):
            yield [c1 * i + c2 * j for (i, j) in pts]


def run_length_columns(thorough=False, name='a', fam='rexs'):
    for vals in run_length_values(thorough):
        yield {'name': name, 'fam': fam, 'v': vals}


# ------------------------------------------------------------ null flavours

def null_sequences():
    """Every single flavour, every pair (both orders) and every triple of
    the five null objects an object column can hold."""
    F = NULL_FLAVOURS
    for f in F:
        yield [f]
    for a, b in itertools.permutations(F, 2):
        yield [a, b]
    for t in itertools.combinations(F, 3):
        yield list(t)


def _interleave(values, nulls):
    """v0 n0 v1 n1 ... (left-over nulls at the end)."""
    out = []
    cells = [{'null': f} for f in nulls]
    for i, v in enumerate(values):
        out.append(v)
        if i < len(cells):
            out.append(cells[i])
    out.extend(cells[len(values):])
    return out


def null_flavour_columns(name='a'):
    """Object columns (strings, bools, dates, 19/20/21 categories) holding
    one, two or three KINDS of null, with all values distinct / one value
    duplicated / a single value / no value at all."""
    shapes = [
        ('strobj', [[], ['a'], ['a', 'B1'], ['a', 'a', 'B1']]),
        ('boolobj', [[True], [True, False], [True, True, False]]),
        ('dateobj', [['1999-12-31'], ['1999-12-31', '2000-01-01'],
                     ['1999-12-31', '1999-12-31', '2000-01-01']]),
        ('manycat', [manycat_values(n, rep, 0) for n in (19, 20, 21)
                     for rep in (0, 1)]),
    ]
    for nulls in null_sequences():
        for fam, value_lists in shapes:
            for values in value_lists:
                yield {'name': name, 'fam': fam,
                       'v': _interleave(values, nulls)}


# ------------------------------------------------- line-boundary characters

LINE_CHARS = ['\n', '\r', '\r\n', '\t', '\x0b', '\x0c', '\x1c', '\x85',
              '\u2028', '\u2029', '\x00']


def line_boundary_values():
    """String columns for the rex-on pipelines with every whitespace / line
    boundary character inside and at the end of a value: short values ('.'
    vs DOTALL, '$' before a final newline), values of 98..101 coarse-class
    runs (rexpy falls back to '.{m,n}' above MAX_GROUPS = 99) and columns of
    99..101 distinct values (sampling boundary)."""
    for ch in LINE_CHARS:
        yield ['a' + ch + 'b', 'c' + ch + 'd']
        yield ['a' + ch, 'b' + ch]
        yield [ch]
        yield ['a' + ch + 'b', 'cd']
        yield ['a' + ch, 'a']
        yield ['a', 'a' + ch]
        yield [ch + 'a', 'a']
        for k in (48, 49, 50):
            # 2k runs without the character; inside it adds runs, at the end
            # it adds one
            yield ['a-' * k + ch]
            yield ['a-' * (k // 2) + 'a' + ch + 'a-' * (k - k // 2)]
            yield ['a-' * k + ch, 'b-' * k + 'b']
        for n in (99, 100, 101):
            yield ['v%03d' % i for i in range(n - 1)] + ['v' + ch + '7']


def line_boundary_columns(name='a', fam='rexs'):
    for vals in line_boundary_values():
        yield {'name': name, 'fam': fam, 'v': vals}


def columns(fam, maxrows, name='a', minrows=0):
    """Every column of 0..maxrows cells over the family's alphabet."""
    vals = FAMILIES[fam]['values']
    for n in range(minrows, maxrows + 1):
        for tup in itertools.product(vals, repeat=n):
            yield {'name': name, 'fam': fam, 'v': list(tup)}


def single_column_frames(families, maxrows, names=('a',), manycat=True,
                         rows_for=None):
    """Every one-column frame; rows_for: optional {family: maxrows} override."""
    for name in names:
        for fam in families:
            r = (rows_for or {}).get(fam, maxrows)
            for col in columns(fam, r, name):
                yield {'cols': [col]}
        if manycat:
            for col in manycat_columns(name):
                yield {'cols': [col]}


def two_column_frames(families, rows=2, namepairs=(('a', 'b c'),),
                      sub_alphabet=3):
    """Ordered pairs of families, exactly `rows` rows, each column over the
    first `sub_alphabet` values of its family (null included)."""
    for (n1, n2) in namepairs:
        for f1 in families:
            for f2 in families:
                v1 = FAMILIES[f1]['values'][:sub_alphabet]
                v2 = FAMILIES[f2]['values'][:sub_alphabet]
                for t1 in itertools.product(v1, repeat=rows):
                    for t2 in itertools.product(v2, repeat=rows):
                        yield {'cols': [
                            {'name': n1, 'fam': f1, 'v': list(t1)},
                            {'name': n2, 'fam': f2, 'v': list(t2)}]}


# ---------------------------------------------------------------- decoding

def _f(x):
    if x == 'inf':
        return float('inf')
    if x == '-inf':
        return float('-inf')
    return x


def parse_instant(s):
    """'YYYY-MM-DDTHH:MM:SS[.fffffffff]' -> integer nanoseconds since the
    epoch (naive / UTC)."""
    if '.' in s:
        head, frac = s.split('.')
    else:
        head, frac = s, ''
    d = datetime.datetime.strptime(head, '%Y-%m-%dT%H:%M:%S')
    secs = (d - datetime.datetime(1970, 1, 1)) // datetime.timedelta(seconds=1)
    return secs * 10 ** 9 + int((frac + '000000000')[:9])


def parse_date(s):
    return datetime.datetime.strptime(s, '%Y-%m-%d').date()


NULL_FLAVOURS = ['None', 'nan', 'npnan', 'NA', 'NaT']
NULL_SRC = {'None': 'None', 'nan': "float('nan')", 'npnan': 'np.nan',
            'NA': 'pd.NA', 'NaT': 'pd.NaT'}


def is_null_cell(v):
    return v is None or isinstance(v, dict)


def null_object(cell):
    import numpy as np
    import pandas as pd
    if cell is None:
        return None
    return {'None': None, 'nan': float('nan'), 'npnan': np.nan,
            'NA': pd.NA, 'NaT': pd.NaT}[cell['null']]


def null_flavours_of(col):
    """Sorted list of the explicit null flavours used in a column."""
    return sorted(set(v['null'] for v in col['v'] if isinstance(v, dict)))


def build_series(col):
    """A fresh pandas Series for a column description."""
    import numpy as np
    import pandas as pd
    fam = col['fam']
    info = FAMILIES[fam]
    dtype = info['dtype']
    vals = col['v']
    if fam in ('i64', 'u8', 'i64x', 'u64x', 'i8'):
        return pd.Series(np.array(vals, dtype=dtype), dtype=dtype)
    if fam in ('Int64', 'boolean'):
        return pd.Series([pd.NA if v is None else v for v in vals],
                         dtype=dtype)
    if fam in ('f64', 'f64inf', 'f32'):
        return pd.Series(np.array([np.nan if v is None else _f(v)
                                   for v in vals], dtype=dtype), dtype=dtype)
    if fam == 'bool':
        return pd.Series(np.array(vals, dtype=bool), dtype=bool)
    if fam in ('boolobj', 'strobj', 'manycat', 'rexs'):
        return pd.Series([null_object(v) if is_null_cell(v) else v
                          for v in vals], dtype=object)
    if fam in ('cat', 'rexscat'):
        return pd.Series(pd.Categorical(list(vals)))
    if fam == 'catx':
        return pd.Series(pd.Categorical(list(vals),
                                        categories=CATX_CATEGORIES))
    if fam == 'dateobj':
        return pd.Series([null_object(v) if is_null_cell(v)
                          else parse_date(v) for v in vals], dtype=object)
    if info['kind'] == 'date':
        unit = info.get('unit') or fam[2:]
        arr = np.array(['NaT' if v is None else v for v in vals],
                       dtype='datetime64[%s]' % unit)
        s = pd.Series(arr)
        if info.get('tz'):
            s = s.dt.tz_localize('UTC')
            if info['tz'] != 'UTC':
                s = s.dt.tz_convert(info['tz'])
        return s
    raise ValueError('unknown family %r' % fam)


def build_frame(desc):
    """A fresh DataFrame (fresh column objects) for a frame description."""
    import pandas as pd
    cols = collections.OrderedDict()
    for c in desc['cols']:
        cols[c['name']] = build_series(c)
    df = pd.DataFrame(cols)
    assert list(df) == [c['name'] for c in desc['cols']]
    return df


def frame_histories(thorough=False):
    """Histories of frames with the SAME column names, for checks that ask
    whether what tdda reports for a frame depends on frames the process has
    handled before.  Yields {'mode', 'hist': [frame, ...], 'frame': last}:
    mode 'new-frame' = each step is a new frame object (earlier ones stay
    alive), 'same-object' = the columns of the one frame object are replaced
    in place (needs equal row counts)."""
    fams = BASE_FAMILIES + (EXTRA_FAMILIES if thorough else [])
    nb = 3 if thorough else 2

    def fixed(fam, name='a'):
        return {'name': name, 'fam': fam, 'v': FAMILIES[fam]['values'][-2:]}
    for fa in fams:
        A = fixed(fa)
        for fb in fams:
            vb = FAMILIES[fb]['values'][:nb]
            for n in (2, 0, 1):
                for tup in itertools.product(vb, repeat=n):
                    B = {'name': 'a', 'fam': fb, 'v': list(tup)}
                    if fa == fb and B['v'] == A['v']:
                        continue
                    for mode in ('new-frame', 'same-object'):
                        if mode == 'same-object' and n != 2:
                            continue
                        yield {'mode': mode, 'hist': [{'cols': [A]}],
                               'frame': {'cols': [B]}}
    # the two columns exchange their types
    for fa in fams:
        for fb in fams:
            if fa == fb:
                continue
            for mode in ('new-frame', 'same-object'):
                yield {'mode': mode,
                       'hist': [{'cols': [fixed(fa, 'a'), fixed(fb, 'b c')]}],
                       'frame': {'cols': [fixed(fb, 'a'), fixed(fa, 'b c')]}}
    # category-count boundary after a column on the other side of it
    for n1, n2 in ((21, 20), (20, 21), (25, 2), (2, 25), (19, 21)):
        for fam2 in ('manycat', 'cat'):
            if fam2 == 'cat' and n2 > 3:
                continue
            v2 = manycat_values(n2, 0, 0) if fam2 == 'manycat' \
                else ['a', 'B1']
            yield {'mode': 'new-frame',
                   'hist': [{'cols': [{'name': 'a', 'fam': 'manycat',
                                       'v': manycat_values(n1, 0, 1)}]}],
                   'frame': {'cols': [{'name': 'a', 'fam': fam2, 'v': v2}]}}
    if thorough:
        for fa in BASE_FAMILIES:            # two earlier frames
            for fc in BASE_FAMILIES:
                for fb in BASE_FAMILIES:
                    for mode in ('new-frame', 'same-object'):
                        yield {'mode': mode,
                               'hist': [{'cols': [fixed(fa)]},
                                        {'cols': [fixed(fc)]}],
                               'frame': {'cols': [fixed(fb)]}}


PATH_FORMS = ['str', 'Path', 'rel']     # absolute str, pathlib.Path, relative
PATH_LOADERS = ['verify', 'detect', 'load']
PATH_WRITES = ['w', 'replace']          # truncate in place / new file moved in
PATH_CORE_FAMILIES = ['i64', 'f64', 'boolobj', 'strobj', 'cat', 'dtus']


def path_histories(thorough=False):
    """Histories on ONE .tdda path: constraints discovered from an earlier
    frame are written to the path and the path is read (verify_df /
    detect_df / DatasetConstraints(loadpath=...)), then the path is
    rewritten with the constraints discovered from the last frame, which is
    verified and detected against it.  Yields {'hist': [frame], 'frame':
    last, 'spec': {'f1': form of the path in the earlier reads, 'f2': form in
    the last reads, 'first': how the earlier read happened, 'write': how the
    file is rewritten}}.  Every ordered pair of families (same column name;
    and an earlier frame with ANOTHER column name) under the plain spec; the
    full product of forms x loaders x rewrite modes over the ordered pairs
    of six core families (thorough: of all families)."""
    fams = BASE_FAMILIES + (EXTRA_FAMILIES if thorough else [])

    def fixed(fam, name='a', last=True):
        v = FAMILIES[fam]['values']
        return {'name': name, 'fam': fam, 'v': v[-2:] if last else v[:2]}

    def pairs(families):
        for fa in families:
            for fb in families:
                A, B = fixed(fa), fixed(fb)
                if fa == fb:
                    B = fixed(fb, last=False)
                    if B['v'] == A['v']:
                        B = dict(B, v=A['v'][:1] * 2)
                yield A, B
    plain = {'f1': 'str', 'f2': 'str', 'first': 'verify', 'write': 'w'}
    for A, B in pairs(fams):
        yield {'hist': [{'cols': [A]}], 'frame': {'cols': [B]},
               'spec': plain}
        yield {'hist': [{'cols': [dict(A, name='b c')]}],
               'frame': {'cols': [B]}, 'spec': plain}
    for A, B in pairs(fams if thorough else PATH_CORE_FAMILIES):
        for f1 in PATH_FORMS:
            for f2 in PATH_FORMS:
                for first in PATH_LOADERS:
                    for write in PATH_WRITES:
                        spec = {'f1': f1, 'f2': f2, 'first': first,
                                'write': write}
                        if spec != plain:
                            yield {'hist': [{'cols': [A]}],
                                   'frame': {'cols': [B]}, 'spec': spec}
    if thorough:                         # two earlier frames
        for A, B in pairs(PATH_CORE_FAMILIES):
            for fc in PATH_CORE_FAMILIES:
                yield {'hist': [{'cols': [A]}, {'cols': [fixed(fc)]}],
                       'frame': {'cols': [B]}, 'spec': plain}


def mutate_into(df, frame):
    """Turn the frame object df into `frame` in place (same row count and
    column names): the columns are assigned one by one."""
    for c in frame['cols']:
        df[c['name']] = build_series(c)


def tz_offset_minutes(fam):
    return FAMILIES[fam].get('tzmin')


def tz_class(fam):
    """None for naive families; '0', '+whole', '+frac', '-whole', '-frac'
    or 'dst' (named zone with a transition) for tz-aware ones."""
    return FAMILIES[fam].get('tzclass')


def plain_column(col):
    """Plain Python view of a column for the reference models:

    (kind, values, info) where kind is the tdda type the *data* has
    ('int', 'real', 'bool', 'string', 'date', or None when an object column
    has no non-null cell and so nothing determines it), values is a list
    with None for nulls and otherwise bool / int / float / str, or for
    dates an integer number of nanoseconds since the epoch (UTC instant),
    and info carries 'dateonly' (datetime.date cells), 'tzmin' (offset in
    minutes for tz-aware families, else None) and 'dtype'."""
    fam = col['fam']
    info = FAMILIES[fam]
    kind = info['kind']
    vals = []
    for v in col['v']:
        if is_null_cell(v):
            vals.append(None)
        elif kind == 'real':
            vals.append(float(_f(v)))
        elif kind == 'date':
            if fam == 'dateobj':
                vals.append(parse_instant(v + 'T00:00:00'))
            else:
                vals.append(parse_instant(v))
        else:
            vals.append(v)
    if info['dtype'] == 'object' and all(v is None for v in vals):
        kind = None
    return kind, vals, {'dateonly': fam == 'dateobj',
                        'tzmin': tz_offset_minutes(fam),
                        'dtype': info['dtype'], 'fam': fam}


def describe(desc):
    parts = []
    for c in desc['cols']:
        v = c['v']
        txt = repr(v) if len(v) <= 6 else '%r ... (%d cells)' % (v[:3], len(v))
        parts.append('%s[%s]=%s' % (c['name'], c['fam'], txt))
    return '; '.join(parts)


def snippet(desc):
    """Standalone Python text that rebuilds the frame with pandas alone."""
    lines = ['import datetime, numpy as np, pandas as pd',
             'cols = {}']
    for c in desc['cols']:
        fam, v = c['fam'], c['v']
        dtype = FAMILIES[fam]['dtype']
        if FAMILIES[fam]['kind'] == 'date' and fam != 'dateobj':
            unit = FAMILIES[fam].get('unit') or fam[2:]
            e = ('pd.Series(np.array(%r, dtype="datetime64[%s]"))'
                 % (['NaT' if x is None else x for x in v], unit))
            if FAMILIES[fam].get('tz'):
                e += '.dt.tz_localize("UTC").dt.tz_convert(%r)' \
                    % FAMILIES[fam]['tz']
        elif dtype == 'object' and any(isinstance(x, dict) for x in v):
            items = []
            for x in v:
                if is_null_cell(x):
                    items.append('None' if x is None else NULL_SRC[x['null']])
                elif fam == 'dateobj':
                    items.append('datetime.date.fromisoformat(%r)' % x)
                else:
                    items.append(repr(x))
            e = 'pd.Series([%s], dtype=object)' % ', '.join(items)
        elif fam == 'dateobj':
            e = ('pd.Series([None if x is None else '
                 'datetime.date.fromisoformat(x) for x in %r], dtype=object)'
                 % (v,))
        elif fam in ('cat', 'rexscat'):
            e = 'pd.Series(pd.Categorical(%r))' % (v,)
        elif fam == 'catx':
            e = ('pd.Series(pd.Categorical(%r, categories=%r))'
                 % (v, CATX_CATEGORIES))
        elif fam in ('f64', 'f64inf', 'f32'):
            e = ('pd.Series([np.nan if x is None else float(x) for x in %r], '
                 'dtype=%r)' % (v, dtype))
        elif fam in ('Int64', 'boolean'):
            e = ('pd.Series([pd.NA if x is None else x for x in %r], dtype=%r)'
                 % (v, dtype))
        else:
            e = 'pd.Series(%r, dtype=%r)' % (v, dtype)
        lines.append('cols[%r] = %s' % (c['name'], e))
    lines.append('df = pd.DataFrame(cols)')
    return '\n'.join(lines)
