"""
Filesystem observation for C10: an audit-hook log of file mutations issued by
Python code, plus directory snapshots (pyarrow writes parquet natively, which
the hook cannot see).  Independent of every other check's helpers.
"""
import hashlib
import os
import sys

_WRITE_FLAGS = (os.O_WRONLY | os.O_RDWR | os.O_CREAT | os.O_TRUNC |
                os.O_APPEND)

_PATH_EVENTS = {
    # event -> indices of path arguments that are mutated
    'os.remove': (0,), 'os.rename': (0, 1), 'os.rmdir': (0,),
    'os.mkdir': (0,), 'os.truncate': (0,), 'os.chmod': (0,),
    'os.chown': (0,), 'os.utime': (0,), 'os.link': (1,),
    'os.symlink': (1,), 'shutil.copyfile': (1,), 'shutil.move': (0, 1),
    'shutil.rmtree': (0,), 'shutil.copymode': (1,), 'shutil.copystat': (1,),
    'os.setxattr': (0,), 'os.removexattr': (0,), 'shutil.copytree': (1,),
    'tempfile.mkstemp': (0,), 'tempfile.mkdtemp': (0,),
}


class Monitor(object):
    """One per process (audit hooks cannot be removed).  `roots` are the
    directories whose mutations are recorded while `log` is a list."""

    installed = None

    def __init__(self):
        self.roots = ()
        self.log = None

    @classmethod
    def get(cls):
        if cls.installed is None:
            m = cls()
            sys.addaudithook(m._hook)
            cls.installed = m
        return cls.installed

    def _under(self, p):
        try:
            if isinstance(p, bytes):
                p = os.fsdecode(p)
            if not isinstance(p, str):
                return None
            if not os.path.isabs(p):
                p = os.path.join(os.getcwd(), p)
            p = os.path.normpath(p)
        except Exception:
            return None
        for r in self.roots:
            if p == r or p.startswith(r + os.sep):
                return p
        return None

    def _hook(self, event, args):
        log = self.log
        if log is None:
            return
        if event == 'open':
            path, mode, flags = args[0], args[1], args[2]
            writing = False
            if isinstance(mode, str):
                writing = any(c in mode for c in 'wax+')
            elif isinstance(flags, int):
                writing = bool(flags & _WRITE_FLAGS)
            if writing:
                p = self._under(path)
                if p:
                    log.append(('open-for-write', p))
        elif event in _PATH_EVENTS:
            for i in _PATH_EVENTS[event]:
                if i < len(args):
                    p = self._under(args[i])
                    if p:
                        log.append((event, p))

    def start(self, roots):
        self.roots = tuple(os.path.normpath(r) for r in roots)
        self.log = []

    def stop(self):
        log, self.log = self.log, None
        return log or []


def snapshot(dirs):
    """{path: (sha1, size, mtime_ns, inode)} of every entry below dirs."""
    snap = {}
    for d in dirs:
        for root, subdirs, files in os.walk(d):
            for name in sorted(subdirs):
                p = os.path.join(root, name)
                st = os.lstat(p)
                snap[p] = ('<dir>', 0, 0, st.st_ino)
            for name in sorted(files):
                p = os.path.join(root, name)
                st = os.lstat(p)
                with open(p, 'rb') as f:
                    h = hashlib.sha1(f.read()).hexdigest()
                snap[p] = (h, st.st_size, st.st_mtime_ns, st.st_ino)
    return snap


def snapshot_diff(before, after):
    """List of (what, path) differences."""
    out = []
    for p in sorted(set(before) | set(after)):
        b, a = before.get(p), after.get(p)
        if b == a:
            continue
        if b is None:
            out.append(('created', p))
        elif a is None:
            out.append(('deleted', p))
        elif b[0] != a[0] or b[1] != a[1]:
            out.append(('content', p))
        elif b[3] != a[3]:
            out.append(('replaced', p))
        else:
            out.append(('rewritten', p))
    return out


OLD_NS = 978307200 * 10 ** 9       # 2001-01-01: sentinel mtime


def age(dirs):
    """Give every file below dirs a distinct old mtime, so that any rewrite -
    even with identical content inside one clock tick - shows in st_mtime_ns."""
    i = 0
    for d in dirs:
        for root, subdirs, files in os.walk(d):
            for name in sorted(files):
                i += 1
                t = OLD_NS + i * 10 ** 9
                os.utime(os.path.join(root, name), ns=(t, t))


def empty_dir(d):
    for e in list(os.scandir(d)):
        if e.is_dir(follow_symlinks=False):
            import shutil
            shutil.rmtree(e.path)
        else:
            os.unlink(e.path)
