"""
Shared driver for the gentest checks (C11, C12).

One worker process owns one root directory under /var/tmp:

    <root>/w       the per-case sandbox = working directory of the command
                   (emptied and rebuilt for every case)
    <root>/gtmp    gentest's private $TMPDIR (module constant of gentest,
                   pinned here so that its name is deterministic)
    <root>/tmp     tempfile.tempdir / $TMPDIR of the "user's shell"
    <root>/fail    ReferenceTest.tmp_dir (failure artefacts)

A *case description* (JSON) says what the deterministic command does:

    {'out': [tok, ...], 'err': [tok, ...],          lines on stdout / stderr
     'files': [{'kind': 'text', 'sub': 0..5, 'name': ..., 'lines': [tok]}],
                  place (see PLACES): working directory, sub/, gentest's
                  $TMPDIR, alt/, sibling directory <cwd>_out, elsewhere
     'spec': 'none' | 'dir' | 'explicit' | 'relative' | 'absolute' | 'glob',
     'status': 0 | 3, 'iters': 1|2|3,
     'no_stdout': 0|1, 'no_stderr': 0|1, 'nonzero': 0|1,
     'script': 'rel' | 'abs' | 'bare' | 'nopfx' | 'nound' (test<stem>.py),
     'stem': 'x' | '_x' | '__x' | ...   script test_<stem>.py (default 'x')
     'kw': {keyword of gentest(): value}   the rarely used keywords
           (tmp_dir_shell_var None / custom, max_snapshot_files,
           relative_paths, no_clobber), each at a non-default value
     'entry': 'api' | 'cli' | 'wizard'  gentest() / tdda gentest ARGS / the
           question-and-answer wizard fed through the actual_input seam
     'pre': 0|1}                                    outputs exist beforehand

The command is always `sh ./emit.sh`; emit.sh only copies data files
(d_out.dat, d_err.dat, d_f<i>.dat, d_status.dat) to stdout / stderr / the
output files / the exit status, so "the command behaves differently" (C12) is
obtained by editing a data file, never the generated script.

The module never imports tdda at import time (Harness.setup does).
"""
import contextlib
import datetime as _real_datetime
import hashlib
import io
import os
import shutil
import stat
import subprocess
import sys
import tempfile
import time
import types
import unittest

FAKE_NOW = (2024, 3, 15, 12, 0, 0)
COMMAND = 'sh ./emit.sh'
SCRIPT_STEM = 'x'                     # test_x.py, reference dir ref/x
TMP_MARK = '@TMPDIR@'

# --------------------------------------------------------------- alphabets
# token name -> line text; {CWD} {USER} {HOST} {HOME} are filled in with the
# values of the running process, @TMPDIR@ is expanded by emit.sh at run time
TOKENS = {
    'plain':   'hello',
    'quotes':  'it\'s "q"',
    'bslash':  'a\\b',
    'regex':   'a.*[x]+(y)|z^$',
    'uni':     'é日本',
    'today':   'run 2024-03-15',
    'baddate': '31/02/2020',
    'version': 'version 1.2.0 build 15',
    'time':    '12:30:45',
    'cwd':     '{CWD}/x',
    'user':    'user {USER}',
    'host':    'on {HOST}',
    'ip':      'addr {IP}',
    'tmp':     TMP_MARK + '/x',
    'empty':   '',
    'trail':   'end  ',
    # thorough
    'now':     '2024-03-15 12:30:45',
    'euro':    '15 Mar 2024',
    'usdate':  'March 15, 2024',
    'olddate': '1999-12-31',
    'nodate':  '99/99/99',
    'tquotes': '\'\'\'"""',
    'tab':     'a\tb',
    'percent': '%s %(x)s %%',
    'home':    '{HOME}/x',
    'endbs':   'c\\',
    'brace':   '{}{0}',
}
# one representative of every str.splitlines() boundary class (and a bare
# CR), inside a line and at its end; NUL; a character outside the BMP
SEPARATORS = {'ff': '\x0c', 'vt': '\x0b', 'fs': '\x1c', 'gs': '\x1d',
              'rs': '\x1e', 'nel': '\x85', 'ls': '\u2028', 'ps': '\u2029',
              'cr': '\r'}
for _k, _c in SEPARATORS.items():
    TOKENS[_k + '_in'] = 'a' + _c + 'b'
    TOKENS[_k + '_end'] = 'a' + _c
TOKENS['nul'] = 'a\x00b'
TOKENS['astral'] = 'a\U0001F600b'
CHAR_TOKENS = ([k + '_in' for k in SEPARATORS] + [k + '_end' for k in SEPARATORS]
               + ['nul', 'astral'])
# big streams: '@line:N' = one line of N bytes (newline included),
# '@lines:N' = N bytes of ten-byte lines; the pipe capacity is 65 536
BIG_TOKENS = ['@line:70000', '@lines:70000', '@lines:65535', '@lines:65536',
              '@lines:65537', '@line:65536']

# the command itself: emit.sh ignores its arguments
COMMANDS = [
    'sh ./emit.sh',
    'sh ./emit.sh "it\'s" \'"q"\'',
    'sh ./emit.sh \'"""\' a\\\\b',
    'sh ./emit.sh "\'\'\'" "%s %(x)s"',
    'sh ./emit.sh \u00e9\u65e5\u672c',
    'sh ./emit.sh # """ \\',
]

QUICK_TOKENS = ['plain', 'quotes', 'bslash', 'regex', 'uni', 'today',
                'baddate', 'olddate', 'version', 'time', 'cwd', 'user',
                'host', 'ip', 'tmp', 'empty', 'trail']
THOROUGH_TOKENS = QUICK_TOKENS + ['now', 'euro', 'usdate',
                                  'nodate', 'tquotes', 'tab', 'percent',
                                  'home', 'endbs', 'brace']

# output-file kinds: name, bytes (None = text lines given by the case)
FILE_KINDS = {
    'text':  ('o.txt', None),
    'csv':   ('o.csv', b'a,b\n1,x\n2,y\n'),
    'bin':   ('o.bin', b'\x00\xff\x01\xfe\x00\x10'),
    'png':   ('o.png', b'\x89PNG\r\n\x1a\n\x00\x00\x00\rIHDR\x00\x00'),
    # thorough
    'noext': ('o', None),
    'json':  ('o.json', b'{"a": [1, 2]}\n'),
    'latin': ('o.dat', b'caf\xe9 au lait\n'),
    'zero':  ('o.log', b''),
    # Latin-1 bytes in files that are text by their extension
    'latintxt': ('o.txt', b'r\xe9sum\xe9\n'),
    'latincsv': ('o.csv', b'name,city\nZo\xeb,K\xf6ln\n'),
    'latinlong': ('o.txt', b'Les \xe9l\xe8ves fran\xe7ais ont \xe9t\xe9 '
                  b're\xe7us \xe0 la f\xeate de No\xebl.\n'),
    'crlf': ('o.txt', b'a\r\nb\r\n'),
    'nultxt': ('o.txt', b'a\x00b\nc\n'),
    # UTF-8 text files that gentest records with an explicit encoding:
    # non-ASCII content without / with a byte-order mark in front
    'utf8txt': ('o.txt', 'caf\u00e9 \u65e5\u672c\nplain\n'.encode('utf-8')),
    'bomtxt': ('o.txt', b'\xef\xbb\xbf'
               + 'caf\u00e9 \u65e5\u672c\nplain\n'.encode('utf-8')),
    'bomascii': ('o.txt', b'\xef\xbb\xbfhello\nplain\n'),
}
BOM = b'\xef\xbb\xbf'
# the rarely used keywords of gentest(), each at a non-default value
KW_POINTS = [
    {'tmp_dir_shell_var': None},
    {'tmp_dir_shell_var': 'GT_SCRATCH'},
    {'max_snapshot_files': 500},
    {'relative_paths': True},
    {'no_clobber': True},
]
# script names: test_<stem>.py; stems that differ only in underscores / case
STEMS = ['x', '_x', '__x', 'x_', 'X', 'x_y']

# where an output file is written: code -> (directory relative to the working
# directory, the same as emit.sh spells it).  The working directory is
# <root>/w, so <root>/w_out is a sibling whose name extends the cwd's name.
PLACES = {
    0: ('', '.'),                                   # working directory
    1: ('sub', 'sub'),                              # sub-directory
    2: (os.path.join('..', 'gtmp'), '$TMPDIR'),     # gentest's $TMPDIR
    3: ('alt', 'alt'),                              # a second sub-directory
    4: (os.path.join('..', 'w_out'), os.path.join('..', 'w_out')),
    5: (os.path.join('..', 'else', 'deep'),         # elsewhere, absolute
        os.path.join('..', 'else', 'deep')),
}

BYSTANDERS = [
    ('keep.txt', b'bystander text\n'),
    ('keep.bin', b'\x00\x01\xff'),
    ('sub/keep.csv', b'k,v\n1,2\n'),
    ('.khidden', b'hidden\n'),
    ('k sp \u00e9.txt', b'spaces and unicode in the name\n'),
    ('kro.txt', b'read only\n'),
]
# further bystanders made by build(): klink.txt -> keep.txt, khard.txt (hard
# link to keep.txt), kempty/ (empty directory), lookup -> ../shared (symlink
# to a directory outside the working directory holding SHARED files)
SHARED = [('table.csv', b'id,v\n1,2\n'), ('notes.txt', b'shared notes\n')]
BYSTANDER_NAMES = ([os.path.basename(r) for r, _ in BYSTANDERS]
                   + ['klink.txt', 'khard.txt'] + [n for n, _ in SHARED])


class Hang(BaseException):
    """a gentest call or a generated script did not return in time"""


def _kill_children():
    """kill every descendant of this process (a hung command)"""
    me = os.getpid()
    kids = {}
    for n in os.listdir('/proc'):
        if not n.isdigit():
            continue
        try:
            with open('/proc/%s/stat' % n) as f:
                st = f.read()
            ppid = int(st[st.rindex(')') + 2:].split()[1])
        except (OSError, ValueError, IndexError):
            continue
        kids.setdefault(ppid, []).append(int(n))
    todo = list(kids.get(me, []))
    while todo:
        pid = todo.pop()
        todo.extend(kids.get(pid, []))
        try:
            os.kill(pid, 9)
        except OSError:
            pass


@contextlib.contextmanager
def deadline(seconds):
    """raise Hang in the main thread after `seconds` (SIGALRM)"""
    import signal

    def on_alarm(signum, frame):
        raise Hang()
    try:
        old = signal.signal(signal.SIGALRM, on_alarm)
    except ValueError:          # not in the main thread: no limit
        yield
        return
    signal.setitimer(signal.ITIMER_REAL, seconds)
    try:
        yield
    finally:
        signal.setitimer(signal.ITIMER_REAL, 0)
        signal.signal(signal.SIGALRM, old)


HANG_LIMIT = 20.0


class FakeClockModule(object):
    """Stands in for the `datetime` module inside gentest only."""

    class datetime(_real_datetime.datetime):
        @classmethod
        def now(cls, tz=None):
            return cls(*FAKE_NOW)

        @classmethod
        def today(cls):
            return cls(*FAKE_NOW)

        @classmethod
        def utcnow(cls):
            return cls(*FAKE_NOW)

    timedelta = _real_datetime.timedelta
    date = _real_datetime.date
    time = _real_datetime.time
    timezone = _real_datetime.timezone
    MINYEAR = _real_datetime.MINYEAR
    MAXYEAR = _real_datetime.MAXYEAR


# ------------------------------------------------------------------ audit
_AUDIT = {'on': False, 'log': [], 'installed': False}
_WRITE_EVENTS = ('os.remove', 'os.rename', 'os.rmdir', 'os.mkdir',
                 'shutil.copyfile', 'shutil.move', 'shutil.rmtree',
                 'os.truncate', 'os.chmod', 'os.utime', 'os.link',
                 'os.symlink', 'shutil.copymode', 'shutil.copystat')


def _audit_hook(event, args):
    if not _AUDIT['on']:
        return
    if event == 'open':
        path, mode, flags = (list(args) + [None, None])[:3]
        writing = False
        if isinstance(mode, str):
            writing = any(c in mode for c in 'wax+')
        elif isinstance(flags, int):
            writing = bool(flags & (os.O_WRONLY | os.O_RDWR | os.O_CREAT
                                    | os.O_TRUNC | os.O_APPEND))
        if writing and isinstance(path, (str, bytes)):
            _AUDIT['log'].append(('open-w', _s(path)))
    elif event in _WRITE_EVENTS:
        if event in ('os.remove', 'os.rmdir') and len(args) > 1 \
                and isinstance(args[1], int) and args[1] >= 0:
            return      # relative to a directory fd (shutil.rmtree internals);
                        # removals are also caught by the snapshots
        paths = [_s(a) for a in args if isinstance(a, (str, bytes))]
        if event in ('os.rename', 'shutil.copyfile', 'shutil.move',
                     'os.link', 'os.symlink', 'shutil.copymode',
                     'shutil.copystat'):
            # source is only read (rename: source disappears)
            if event in ('os.rename', 'shutil.move'):
                for p in paths[:2]:
                    _AUDIT['log'].append((event, p))
            elif len(paths) > 1:
                _AUDIT['log'].append((event, paths[1]))
        else:
            for p in paths[:1]:
                _AUDIT['log'].append((event, p))


def _s(p):
    return os.fsdecode(p) if isinstance(p, bytes) else p


def install_audit():
    if not _AUDIT['installed']:
        sys.addaudithook(_audit_hook)
        _AUDIT['installed'] = True


@contextlib.contextmanager
def audited():
    _AUDIT['log'] = []
    _AUDIT['on'] = True
    try:
        yield _AUDIT['log']
    finally:
        _AUDIT['on'] = False


# --------------------------------------------------------------- snapshots
def snapshot(top, extra=()):
    """{relative path: (sha1, size, mtime_ns, inode)} for files,
    {relative path + '/': None} for directories; `extra` directories are
    included with paths relative to top ('../w_out/keep.txt')."""
    out = {}
    for t in (top,) + tuple(extra):
        _snap_into(out, t, top)
    return out


def _snap_into(out, walk_top, top):
    for d, dirs, files in os.walk(walk_top):
        dirs.sort()
        for n in dirs:
            p = os.path.join(d, n)
            out[os.path.relpath(p, top) + '/'] = (
                ('link', os.readlink(p)) if os.path.islink(p) else None)
        for n in sorted(files):
            p = os.path.join(d, n)
            st = os.lstat(p)
            if stat.S_ISREG(st.st_mode):
                with open(p, 'rb') as f:
                    h = hashlib.sha1(f.read()).hexdigest()
            elif stat.S_ISLNK(st.st_mode):
                h = 'link:' + os.readlink(p)
            else:
                h = 'special'
            out[os.path.relpath(p, top)] = (h, st.st_size, st.st_mtime_ns,
                                            st.st_ino)


def _letters(n):
    """digits-free, 'root'-free, hostname-free rendering of an integer"""
    s = ''
    n = int(n)
    while True:
        s = 'abcdefghij'[n % 10] + s
        n //= 10
        if not n:
            return s


class RecRunner(object):
    """testRunner for unittest.main: quiet, keeps the result."""
    result = None

    def __init__(self, **kw):
        kw.pop('stream', None)
        self.r = unittest.TextTestRunner(stream=io.StringIO(), **kw)

    def run(self, test):
        RecRunner.result = self.r.run(test)
        return RecRunner.result


class Box(object):
    """One built case."""
    pass


class Harness(object):

    def __init__(self):
        self.root = None

    # ---------------------------------------------------------- lifecycle
    def setup(self):
        base = '/var/tmp'
        k = 0
        while True:
            root = os.path.join(base, 'mcgt_%s_%s' % (_letters(os.getpid()),
                                                       _letters(k)))
            try:
                os.mkdir(root)
                break
            except FileExistsError:
                k += 1
        self.root = root
        self.box_dir = os.path.join(root, 'w')
        self.gtmp = os.path.join(root, 'gtmp')
        self.tmp = os.path.join(root, 'tmp')
        self.fail = os.path.join(root, 'fail')
        self.sib_dir = os.path.join(root, 'w_out')
        self.else_dir = os.path.join(root, 'else')
        self.shared_dir = os.path.join(root, 'shared')
        for d in (self.box_dir, self.gtmp, self.tmp, self.fail,
                  self.sib_dir, self.else_dir, self.shared_dir):
            os.mkdir(d)
        for n, content in SHARED:
            with open(os.path.join(self.shared_dir, n), 'wb') as f:
                f.write(content)
        self.start_cwd = os.getcwd()
        os.environ['TMPDIR'] = self.tmp
        os.environ['TDDA_FAIL_DIR'] = self.fail
        os.environ.pop('TMPDIR_SET_BY_GENTEST', None)
        tempfile.tempdir = self.tmp
        sys.dont_write_bytecode = True

        import tdda.referencetest.gentest as gt
        from tdda.referencetest.referencetest import ReferenceTest
        from tdda.referencetest.referencetestcase import ReferenceTestCase
        self.gt = gt
        self.RT = ReferenceTest
        self.RTC = ReferenceTestCase
        # gentest made itself a randomly named $TMPDIR at import: pin it
        made = getattr(gt, 'TMPDIR', None)
        if made and os.path.isdir(made) and made != self.gtmp \
                and os.path.dirname(made) == self.tmp:
            shutil.rmtree(made, ignore_errors=True)
        gt.TMPDIR = self.gtmp
        gt.TERM_TMPDIR = self.gtmp + os.path.sep
        gt.datetime = FakeClockModule
        import getpass
        import socket
        self.user = getpass.getuser()
        self.host = socket.gethostname()
        self.home = os.environ.get('HOME') or os.path.expanduser('~')
        try:
            self.ip = socket.gethostbyname(self.host)
        except Exception:
            self.ip = None
        self.base_env = dict(os.environ)
        self.base_argv = list(sys.argv)
        self.rt_defaults = (ReferenceTest.tmp_dir, ReferenceTest.verbose)
        install_audit()
        self.reset()

    def teardown(self):
        try:
            os.chdir(self.start_cwd if os.path.isdir(self.start_cwd) else '/')
        except Exception:
            os.chdir('/')
        if self.root and os.path.isdir(self.root):
            shutil.rmtree(self.root, ignore_errors=True)
        self.root = None

    def reset_env(self):
        """The environment of the user's shell (gentest edits os.environ in
        its own process only; the generated script is run from the shell)."""
        for k in list(os.environ):
            if k not in self.base_env:
                del os.environ[k]
        for k, v in self.base_env.items():
            if os.environ.get(k) != v:
                os.environ[k] = v
        tempfile.tempdir = self.tmp

    def reset(self):
        self.reset_env()
        self.reset_process()

    def reset_process(self):
        """everything but the environment variables / tempfile state"""
        sys.argv[:] = self.base_argv
        self.RT.regenerate.clear()
        self.RT.tmp_dir = self.fail
        self.RT.verbose = self.rt_defaults[1]
        self.RTC.tmp_dir = self.fail
        if os.getcwd() != self.root:
            os.chdir(self.root)

    def _empty(self, d):
        for n in os.listdir(d):
            p = os.path.join(d, n)
            if os.path.isdir(p) and not os.path.islink(p):
                shutil.rmtree(p)
            else:
                os.unlink(p)

    # -------------------------------------------------------------- build
    def line(self, tok):
        return (TOKENS[tok].replace('{CWD}', self.box_dir)
                .replace('{USER}', self.user).replace('{HOST}', self.host)
                .replace('{HOME}', self.home)
                .replace('{IP}', self.ip or 'no-address'))

    def token_lines(self, tok):
        if tok.startswith('@line:'):
            return ['x' * (int(tok[6:]) - 1)]
        if tok.startswith('@lines:'):
            n = int(tok[7:])
            lines = ['abcdefghi'] * (n // 10)
            lines[-1] += 'y' * (n - 10 * (n // 10))
            return lines
        return [self.line(tok)]

    def text(self, toks, final_newline=True):
        if not toks:
            return b''
        s = '\n'.join(l for t in toks for l in self.token_lines(t))
        if final_newline:
            s += '\n'
        return s.encode('utf-8')

    def build(self, case, wipe=True, keep_env=False):
        """Create the sandbox for a case.  Returns a Box.  wipe=False keeps
        what an earlier generation left in the working directory (its script,
        reference directory and the outputs of the earlier command).
        keep_env=True: the process environment (os.environ, tempfile) is
        left as the previous generate / run in this process left it."""
        if keep_env:
            self.reset_process()
        else:
            self.reset()
        for d in (self.box_dir, self.gtmp, self.tmp, self.fail):
            if wipe or d != self.box_dir:
                self._empty(d)
        b = Box()
        b.case = case
        b.cwd = self.box_dir
        kw = case.get('kw') or {}
        # the shell variable through which gentest hands its scratch
        # directory to the command (None: gentest leaves $TMPDIR alone, the
        # command sees the TMPDIR of the user's shell)
        b.var = kw.get('tmp_dir_shell_var', 'TMPDIR')
        shvar = b.var or 'TMPDIR'
        b.tmpdir = self.gtmp if b.var else self.tmp
        b.data = {}                       # data file name -> bytes
        b.data['d_out.dat'] = self.text(case.get('out') or [],
                                        not case.get('out_nonl'))
        b.data['d_err.dat'] = self.text(case.get('err') or [],
                                        not case.get('err_nonl'))
        b.data['d_status.dat'] = ('%d\n' % case.get('status', 0)).encode()
        b.files = []                      # (relpath, data file name, kind)
        sh = ['# emit.sh: deterministic command written by the harness',
              'sed "s|%s|$%s|g" d_out.dat' % (TMP_MARK, shvar),
              'sed "s|%s|$%s|g" d_err.dat 1>&2' % (TMP_MARK, shvar)]
        for i, f in enumerate(case.get('files') or []):
            name, content = FILE_KINDS[f['kind']]
            name = f.get('name') or name
            place = f.get('sub') or 0
            reldir, shdir = PLACES[place]
            if place == 2:
                shdir = '$' + shvar
                if not b.var:
                    reldir = os.path.join('..', 'tmp')
            rel = os.path.join(reldir, name)
            target = '"%s"' % os.path.join(shdir, name)
            if content is None:
                content = self.text(f.get('lines') or ['plain'])
            dname = 'd_f%d.dat' % i
            b.data[dname] = content
            b.files.append((rel, dname, f['kind']))
            if TMP_MARK.encode() in content:
                copy = 'sed "s|%s|$%s|g" %s' % (TMP_MARK, shvar, dname)
            else:
                copy = 'cat %s' % dname
            sh.append('if [ -f %s ]; then %s > %s; fi' % (dname, copy,
                                                          target))
        sh.append('read s < d_status.dat')
        sh.append('exit $s')
        for d in ('sub', 'alt'):
            if not os.path.isdir(os.path.join(b.cwd, d)):
                os.mkdir(os.path.join(b.cwd, d))
        for d in (self.sib_dir, self.else_dir):
            self._empty(d)
        os.mkdir(os.path.join(self.else_dir, 'deep'))
        for d in (self.sib_dir, os.path.join(self.else_dir, 'deep')):
            with open(os.path.join(d, 'keep.txt'), 'wb') as f:
                f.write(b'bystander outside the working directory\n')
        outputs = set(rel for rel, _, _ in b.files)
        if not wipe:
            # leftovers of the earlier command: its data files always go;
            # its outputs stay (as bystanders) unless a glob would match them
            for n in os.listdir(b.cwd):
                if n.startswith('d_f') and n not in b.data:
                    os.unlink(os.path.join(b.cwd, n))
            if case.get('spec') == 'glob':
                for d in ('', 'sub', 'alt'):
                    for n in os.listdir(os.path.join(b.cwd, d)):
                        rel = os.path.join(d, n)
                        if os.path.isfile(os.path.join(b.cwd, rel)) \
                                and rel not in outputs \
                                and not n.startswith(('d_', 'keep.', 'test_',
                                                      'k', '.k'))\
                                and n != 'emit.sh':
                            os.unlink(os.path.join(b.cwd, rel))
        for rel in [r for r, _ in BYSTANDERS] + ['klink.txt', 'khard.txt',
                                                 'lookup']:
            if os.path.lexists(os.path.join(b.cwd, rel)):
                os.unlink(os.path.join(b.cwd, rel))
        for rel, content in BYSTANDERS:
            with open(os.path.join(b.cwd, rel), 'wb') as f:
                f.write(content)
        os.chmod(os.path.join(b.cwd, 'kro.txt'), 0o444)
        os.symlink('keep.txt', os.path.join(b.cwd, 'klink.txt'))
        os.link(os.path.join(b.cwd, 'keep.txt'),
                os.path.join(b.cwd, 'khard.txt'))
        os.symlink(os.path.join('..', 'shared'),
                   os.path.join(b.cwd, 'lookup'))
        if not os.path.isdir(os.path.join(b.cwd, 'kempty')):
            os.mkdir(os.path.join(b.cwd, 'kempty'))
        for n, content in b.data.items():
            with open(os.path.join(b.cwd, n), 'wb') as f:
                f.write(content)
        with open(os.path.join(b.cwd, 'emit.sh'), 'w') as f:
            f.write('\n'.join(sh) + '\n')
        if case.get('pre'):
            # the command was tried by hand before gentest is run
            for rel, dname, kind in b.files:
                with open(os.path.join(b.cwd, rel), 'wb') as f:
                    f.write(self.expected_file(b, dname, b.tmpdir))
        # how the outputs are named to gentest
        spec = case.get('spec', 'none')
        rels = [rel for rel, _, _ in b.files]

        def absolute(r):
            return os.path.normpath(os.path.join(b.cwd, r))

        def pattern(r):
            d, n = os.path.split(r)
            if d.startswith('..'):
                d = absolute(d)
            if n.startswith('o.'):
                return os.path.join(d, 'o.*')
            if n == 'o':
                return os.path.join(d, 'o*')
            return os.path.join(d, n[0] + '?' + n[2:])
        if spec == 'none':
            b.file_args = []
        elif spec == 'dir':
            b.file_args = ['.']
        elif spec == 'explicit':
            b.file_args = [absolute(r) if r.startswith('..') else r
                           for r in rels]
        elif spec == 'relative':
            b.file_args = list(rels)
        elif spec == 'absolute':
            b.file_args = [absolute(r) for r in rels]
        elif spec == 'glob':
            b.file_args = sorted(set(pattern(r) for r in rels))
        elif spec == 'globdir':
            # a glob that matches the DIRECTORY holding the outputs
            def dirpattern(r):
                d = os.path.dirname(r)
                if not d:
                    return '.'
                if d.startswith('..'):
                    d = absolute(d)
                h, t = os.path.split(d)
                return os.path.join(h, t[0] + '?' + t[2:])
            b.file_args = sorted(set(dirpattern(r) for r in rels))
        else:
            raise ValueError(spec)
        sc = case.get('script', 'rel')
        b.command = COMMANDS[case.get('cmd', 0)]
        stem = given = case.get('stem') or SCRIPT_STEM
        if sc in ('auto', 'dash'):
            # documented default: test_<sanitised command>.py
            stem = ''.join(c if c.isalnum() else '_' for c in b.command)
        b.script_arg = {'rel': 'test_%s.py' % given,
                        'abs': os.path.join(b.cwd, 'test_%s.py' % given),
                        'bare': given,
                        'nopfx': '%s.py' % given,
                        # begins with "test" already: no prefix is added
                        'nound': 'test%s.py' % given,
                        'auto': None, 'dash': '-'}[sc]
        b.stem = stem
        b.modname = ('test%s' if sc == 'nound' else 'test_%s') % stem
        b.script = os.path.join(b.cwd, b.modname + '.py')
        b.refdir = os.path.join(b.cwd, 'ref', stem)
        return b

    def snap(self, b):
        return snapshot(b.cwd, (self.sib_dir, self.else_dir,
                                self.shared_dir))

    def expected_stdout(self, b, tmpdir):
        return b.data['d_out.dat'].replace(TMP_MARK.encode(),
                                           tmpdir.encode())

    def expected_file(self, b, dname, tmpdir):
        return b.data[dname].replace(TMP_MARK.encode(), tmpdir.encode())

    def expected_stderr(self, b, tmpdir):
        return b.data['d_err.dat'].replace(TMP_MARK.encode(),
                                           tmpdir.encode())

    # ------------------------------------------------------------ generate
    def wizard_answers(self, b):
        """the lines a user types into the wizard to ask for this case"""
        case = b.case
        kw = case.get('kw') or {}
        yn = lambda v: 'y' if v else 'n'
        explicit = [a for a in b.file_args if a != '.']
        return ([b.command, b.script_arg or '',
                 yn(not explicit),                    # all files under $(pwd)
                 yn(kw.get('tmp_dir_shell_var', 'TMPDIR'))]   # under $TMPDIR
                + explicit + ['',
                 yn(not case.get('no_stdout')), yn(not case.get('no_stderr')),
                 yn(not case.get('nonzero')), yn(not kw.get('no_clobber')),
                 str(case.get('iters', 2))])

    def generate(self, b, settle=0.0, keep_env=False):
        """Call gentest.gentest in-process.  Returns dict(exc, exit, stdout,
        stderr, audit).  keep_env=True: called from the environment the
        previous generate / run in this process left behind, and leaves its
        own edits of os.environ in place."""
        case = b.case
        kw = dict(case.get('kw') or {})
        if keep_env:
            self.reset_process()
        else:
            self.reset()
        os.chdir(b.cwd)
        if settle:
            time.sleep(settle)
        out, err = io.StringIO(), io.StringIO()
        res = {'exc': None, 'exit': None, 'tb': None, 'hang': False}
        with audited() as log:
            try:
                with contextlib.redirect_stdout(out), \
                        contextlib.redirect_stderr(err), \
                        deadline(HANG_LIMIT):
                    if case.get('entry') == 'wizard':
                        answers = iter(self.wizard_answers(b))
                        old_input = self.gt.actual_input
                        self.gt.actual_input = lambda: next(answers)
                        try:
                            self.gt.gentest(None, None, [])
                        finally:
                            self.gt.actual_input = old_input
                    elif case.get('entry') == 'cli':
                        # the documented command line: tdda gentest [FLAGS]
                        # 'command' [script [files]]
                        args = list(case.get('flags') or [])
                        if kw.get('relative_paths'):
                            args.append('-r')
                        if kw.get('max_snapshot_files'):
                            args += ['-m', str(kw['max_snapshot_files'])]
                        if kw.get('no_clobber'):
                            args.append('-C')
                        if case.get('iters', 2) != 2:
                            args += ['-n', str(case['iters'])]
                        for k, fl in (('no_stdout', '-O'), ('no_stderr', '-E'),
                                      ('nonzero', '-Z')):
                            if case.get(k):
                                args.append(fl)
                        args.append(b.command)
                        if b.script_arg is not None or b.file_args:
                            args.append(b.script_arg or '-')
                        args += list(b.file_args)
                        self.gt.gentest_wrapper(args)
                    else:
                        self.gt.gentest(
                            b.command, b.script_arg, list(b.file_args),
                            iterations=case.get('iters', 2),
                            no_stdout=bool(case.get('no_stdout')),
                            no_stderr=bool(case.get('no_stderr')),
                            non_zero_exit=bool(case.get('nonzero')), **kw)
            except SystemExit as e:
                res['exit'] = e.code if e.code is not None else 0
            except Hang:
                res['hang'] = True
            except Exception as e:
                import traceback
                res['exc'] = e
                res['tb'] = traceback.extract_tb(e.__traceback__)
        if res['hang']:
            _kill_children()
        res['audit'] = list(log)
        res['stdout'] = out.getvalue()
        res['stderr'] = err.getvalue()
        if keep_env:
            self.reset_process()
        else:
            self.reset()
        os.chdir(b.cwd)
        return res

    # ----------------------------------------------------------------- run
    def compile_script(self, b):
        with open(b.script, 'rb') as f:
            src = f.read()
        return compile(src, b.script, 'exec')

    def run_script(self, b, code=None, module=None, keep_env=False):
        """Run the generated script in-process through ReferenceTestCase.main.

        module=None: import it afresh from its path, from the user's
        environment (what `python test_x.py` does).  module=<a module returned
        earlier in res['module']>: the SAME loaded module and class objects are
        run again in the environment the first run left behind (a runner that
        re-runs loaded tests, unittest discovery keeping modules loaded).
        keep_env=True: imported afresh, but in the environment this process
        is in (a driver that generates and runs several tests in one process,
        unittest discovery importing several generated scripts).
        Returns {'import_error', 'tests': {name: ok|fail|error}, 'other':
        [...] (class/module level errors), 'hang', 'module'}."""
        res = {'import_error': None, 'tests': {}, 'other': [], 'ran': 0,
               'exit': None, 'details': {}, 'hang': False, 'module': None}
        modname = b.modname
        out, err = io.StringIO(), io.StringIO()
        RecRunner.result = None
        names = []
        if module is None and not keep_env:
            self.reset()
        else:
            sys.argv[:] = self.base_argv
            self.RT.regenerate.clear()
        os.chdir(b.cwd)
        try:
            with contextlib.redirect_stdout(out), \
                    contextlib.redirect_stderr(err), deadline(HANG_LIMIT):
                if module is None:
                    if code is None:
                        code = self.compile_script(b)
                    mod = types.ModuleType(modname)
                    mod.__file__ = b.script
                    sys.modules.pop(modname, None)
                    try:
                        exec(code, mod.__dict__)
                    except Exception as e:
                        res['import_error'] = '%s: %s' % (type(e).__name__, e)
                        return res
                else:
                    mod = module
                res['module'] = mod
                for v in list(mod.__dict__.values()):
                    if isinstance(v, type) and issubclass(v, unittest.TestCase) \
                            and v.__module__ == modname:
                        names.extend(n for n in dir(v) if n.startswith('test'))
                try:
                    self.RTC.main(module=mod, argv=[b.script], exit=False,
                                  testRunner=RecRunner)
                except SystemExit as e:
                    res['exit'] = e.code
        except Hang:
            res['hang'] = True
        finally:
            sys.modules.pop(modname, None)
            if res['hang']:
                _kill_children()
            if module is None and not res.get('keep_env'):
                pass
            os.chdir(b.cwd)
        r = RecRunner.result
        if r is None or res['hang']:
            return res
        res['ran'] = r.testsRun
        bad = {}
        for kind, lst in (('fail', r.failures), ('error', r.errors)):
            for t, tbtxt in lst:
                m = getattr(t, '_testMethodName', None)
                if m is None:
                    res['other'].append('%s: %s' % (t, tbtxt[-300:]))
                else:
                    bad[m] = kind
                    res['details'][m] = tbtxt[-400:]
        for n in names:
            res['tests'][n] = bad.get(n, 'ok')
        return res

    def run_subprocess(self, b):
        """`python test_x.py` from the user's environment (binds the
        in-process shortcut to the real invocation)."""
        r = self.run_fresh_process(b)
        return r['rc'], r['stderr']

    def run_fresh_process(self, b):
        """`python test_x.py -v` in a fresh process from the user's
        environment; per-test results parsed from unittest's verbose report.
        Same result shape as run_script."""
        import re
        self.reset()
        os.chdir(b.cwd)
        env = dict(self.base_env)
        env['PYTHONPATH'] = sys.path[0]
        env['PYTHONDONTWRITEBYTECODE'] = '1'
        res = {'import_error': None, 'tests': {}, 'other': [], 'ran': 0,
               'exit': None, 'details': {}, 'hang': False, 'module': None}
        try:
            p = subprocess.run([sys.executable, b.script, '-v'], cwd=b.cwd,
                               env=env, capture_output=True, text=True,
                               errors='replace', timeout=120)
        except subprocess.TimeoutExpired:
            res['hang'] = True
            res['rc'] = None
            res['stderr'] = ''
            return res
        res['rc'] = p.returncode
        res['stderr'] = p.stderr[-600:]
        for m in re.finditer(r'^(test\w*) \([^)]*\)(?:\n.*?)? \.\.\. '
                             r'(ok|FAIL|ERROR)', p.stderr, re.M):
            res['tests'][m.group(1)] = {'ok': 'ok', 'FAIL': 'fail',
                                        'ERROR': 'error'}[m.group(2)]
        for m in re.finditer(r'^(?:ERROR|FAIL): (setUpClass|tearDownClass|'
                             r'\w+) \(', p.stderr, re.M):
            if m.group(1) in ('setUpClass', 'tearDownClass'):
                res['other'].append(m.group(0))
        m = re.search(r'^Ran (\d+) test', p.stderr, re.M)
        if m:
            res['ran'] = int(m.group(1))
        elif p.returncode != 0:
            res['import_error'] = p.stderr[-300:]
        return res

    # ------------------------------------------------------------ mutation
    def write_data(self, b, name, content):
        """content None = data file removed (output no longer produced)."""
        p = os.path.join(b.cwd, name)
        if content is None:
            if os.path.exists(p):
                os.unlink(p)
        else:
            with open(p, 'wb') as f:
                f.write(content)
