"""
Alphabets for C05 (DataFrame comparison): column families, base frames,
deviations and option points.  Plain Python only (no pandas, no tdda): every
object here is JSON-serialisable and is what the reference model
(models/frame_spec.py) reads.

A *frame spec* is a list of columns  [name, label, values]:
  label  = the dtype label ('int64', 'float64', 'bool', 'object', 'str',
           'string', 'category', 'datetime64[ns]', 'Int64', 'boolean', and,
           only as the result of a dtype deviation or in the type-pair
           layer, 'int32', 'float32', 'Int32', 'Float64', 'datetime64[us]');
  values = list of None (null) / int / float / bool / str; datetimes are ISO
           strings 'YYYY-MM-DDTHH:MM:SS' (the label says how to read them);
           an 'object' column holds whatever the column it was converted from
           held (its `okind` is carried as a 4th element when not text).
"""
import itertools

# ------------------------------------------------------------------ families

#          label             null?  values (quick uses the first two + null)
FAMILIES = [
    ('int64',          False, [1, 3, -2, 0]),
    ('float64',        True,  [2.0, -1.25, 0.0, 2.75]),
    ('bool',           False, [True, False]),
    ('object',         True,  ['a', 'B1', '']),
    ('str',            True,  ['a', 'B1', '']),
    ('string',         True,  ['a', 'B1', '']),
    ('category',       True,  ['a', 'B1']),
    ('datetime64[ns]', True,  ['2000-01-01T00:00:00', '1999-12-31T23:59:59',
                               '2000-02-29T12:00:00']),
    ('Int64',          True,  [2, -1, 0]),
    ('boolean',        True,  [True, False]),
]
FAM = dict((f[0], f) for f in FAMILIES)
LABELS = [f[0] for f in FAMILIES]
NO_NULL = ('int64', 'int32', 'bool')

# value kind held by each label ('object' columns carry their own kind)
KIND = {
    'int64': 'int', 'int32': 'int', 'Int64': 'int', 'Int32': 'int',
    'float64': 'float', 'float32': 'float', 'Float64': 'float',
    'bool': 'bool', 'boolean': 'bool',
    'object': 'text', 'str': 'text', 'string': 'text', 'category': 'text',
    'datetime64[ns]': 'datetime', 'datetime64[us]': 'datetime',
}

# dtype deviations that keep every value (so that only the *type* changes)
DTYPE_CHANGES = {
    'int64': ['float64', 'int32', 'object', 'Int64'],
    'float64': ['float32', 'object'],
    'bool': ['boolean', 'object'],
    'object': ['str', 'string', 'category'],
    'str': ['object', 'string', 'category'],
    'string': ['object', 'str', 'category'],
    'category': ['object', 'string', 'str'],
    'datetime64[ns]': ['datetime64[us]'],
    'Int64': ['Int32', 'float64', 'object'],
    'boolean': ['object'],
}

# float cell deltas: for every precision p in {0,2,6,10} the menu holds one
# delta of 10 and one of 1.6 rounding units (must be seen) and one of 0.1 unit
# (must not be seen)
FLOAT_DELTAS = [10.0, 1.6, 0.1, 0.016, 0.001, 1e-05, 1.6e-06, 1e-07, 1e-09,
                1.6e-10, 1e-11]

NAMES = ['a', 'b', 'c']
EXTRA_NAME = 'zz'
RENAME_TO = 'q'


def alphabet(label, nvals):
    lab, nullable, vals = FAM[label]
    out = list(vals[:nvals])
    if nullable:
        out = [None] + out
    return out


def okind_of(col):
    """Value kind of a column (what its non-null cells are)."""
    if col[1] == 'object' and len(col) > 3:
        return col[3]
    return KIND[col[1]]


def columns(label, maxrows, nvals):
    """Every value tuple of length 0..maxrows over the family alphabet."""
    al = alphabet(label, nvals)
    for n in range(maxrows + 1):
        for t in itertools.product(al, repeat=n):
            yield list(t)


def mk(name, label, values):
    return [name, label, list(values)]


# --------------------------------------------------------------- base frames

def single_frames(maxrows, nvals):
    for (label, nullable, vals) in FAMILIES:
        for v in columns(label, maxrows, nvals):
            yield [mk('a', label, v)]


def pattern(label, nrows, shift=0):
    """A fixed column of `nrows` cells for `label`: cycles through null (if
    the family has one) and the family values, starting at `shift`."""
    al = alphabet(label, 3)
    return [al[(i + shift) % len(al)] for i in range(nrows)]


def pair_frames(nrows, shifts=((0, 1),)):
    """Two-column frames: every ordered pair of families."""
    for la in LABELS:
        for lb in LABELS:
            for (sa, sb) in shifts:
                yield [mk('a', la, pattern(la, nrows, sa)),
                       mk('b', lb, pattern(lb, nrows, sb))]


# frames that together hold every family; used for the full option product
COVER_TRIPLES = [
    ('int64', 'float64', 'object'),
    ('str', 'string', 'category'),
    ('datetime64[ns]', 'Int64', 'boolean'),
    ('bool', 'category', 'float64'),
]


def triple_frames(nrows, triples=None):
    for (la, lb, lc) in (triples or COVER_TRIPLES):
        yield [mk('a', la, pattern(la, nrows, 0)),
               mk('b', lb, pattern(lb, nrows, 1)),
               mk('c', lc, pattern(lc, nrows, 2))]


def all_triples():
    for la in LABELS:
        for lb in LABELS:
            for lc in LABELS:
                yield (la, lb, lc)


# ------------------------------------------------------------------- options
#
# An option point is a dict of codes (strings / numbers / None):
#   cd, ct, co, cx : 'none' | 'false' | 'list' | 'fn'       (check_data/types/
#                     order resolved on the reference names, cx = check_extra_
#                     cols on the actual names);  list = [first column],
#                     fn = function returning all columns but the first
#   sort : None | 'first' | 'last' | 'all'
#   cond : None | 'all' | 'notnull' | 'dropfirst' | 'none'
#   prec : None | 0 | 2 | 6 | 10
#   tm   : None | 'strict' | 'medium' | 'permissive'

FLAGS = ['none', 'false', 'list', 'fn']
DEFAULT_OPTS = {'cd': 'none', 'ct': 'none', 'co': 'none', 'cx': 'none',
                'sort': None, 'cond': None, 'prec': 6, 'tm': None}
DIM_VALUES = {
    'cd': FLAGS, 'ct': FLAGS, 'co': FLAGS, 'cx': FLAGS,
    'sort': [None, 'first'],
    'cond': [None, 'all', 'notnull'],
    'prec': [0, 2, 6, 10],
    'tm': [None, 'strict', 'medium', 'permissive'],
}
DIM_VALUES_THOROUGH = dict(DIM_VALUES)
DIM_VALUES_THOROUGH.update({
    'sort': [None, 'first', 'last', 'all'],
    'cond': [None, 'all', 'notnull', 'dropfirst', 'none'],
    'prec': [None, 0, 2, 6, 10],
})
DIMS = ['cd', 'ct', 'co', 'cx', 'sort', 'cond', 'prec', 'tm']


def pick(code, names):
    """Column list selected by a flag code on a list of column names; for
    'fn' this is the body of the user's function."""
    names = list(names)
    if code == 'none':
        return names
    if code == 'false':
        return []
    if code == 'list':
        return names[:1]
    if code == 'fn':
        return names[1:]
    raise ValueError(code)


def opts_with(**kw):
    o = dict(DEFAULT_OPTS)
    o.update(kw)
    return o


def option_product(dims, values=None):
    """Full product over the named dimensions, others at their default."""
    values = values or DIM_VALUES
    for combo in itertools.product(*[values[d] for d in dims]):
        yield opts_with(**dict(zip(dims, combo)))


def option_star(dims=None, values=None):
    """Default point + every point that differs from it in one dimension."""
    values = values or DIM_VALUES
    yield dict(DEFAULT_OPTS)
    for d in (dims or DIMS):
        for v in values[d]:
            if v != DEFAULT_OPTS[d]:
                yield opts_with(**{d: v})


def option_pairs(dims=None, values=None):
    """Every point that differs from the default in exactly two dimensions."""
    values = values or DIM_VALUES
    dims = dims or DIMS
    for i, d1 in enumerate(dims):
        for d2 in dims[i + 1:]:
            for v1 in values[d1]:
                if v1 == DEFAULT_OPTS[d1]:
                    continue
                for v2 in values[d2]:
                    if v2 == DEFAULT_OPTS[d2]:
                        continue
                    yield opts_with(**{d1: v1, d2: v2})


# ---------------------------------------------------------------- deviations

def valid(frame):
    names = [c[0] for c in frame]
    if len(set(names)) != len(names):
        return False
    n = None
    for c in frame:
        if n is None:
            n = len(c[2])
        if len(c[2]) != n:
            return False
        if c[1] in NO_NULL and any(v is None for v in c[2]):
            return False
    return True


def convert(col, newlabel):
    """Same values under another dtype label."""
    name, label, vals = col[0], col[1], col[2]
    kind = okind_of(col)
    if newlabel in ('float64', 'float32'):
        vals = [None if v is None else float(v) for v in vals]
    out = [name, newlabel, list(vals)]
    if newlabel == 'object' and kind != 'text':
        out.append(kind)
    return out


def value_kind(v, col):
    if isinstance(v, bool):
        return 'bool'
    if isinstance(v, int):
        return 'int'
    if isinstance(v, float):
        return 'float'
    if isinstance(v, str):
        return 'datetime' if okind_of(col) == 'datetime' else 'text'
    return None


KIND_FILL = {'int': [1, 3], 'float': [2.0, -1.25], 'bool': [True, False],
             'text': ['a', 'B1'],
             'datetime': ['2000-01-01T00:00:00', '1999-12-31T23:59:59']}


def filler(col, k=0):
    """A value to put in an added row (of the kind the column holds, so that
    no mixed-type object column is ever built)."""
    label = col[1]
    if label == 'object' or label not in FAM:
        vals = KIND_FILL[okind_of(col)]
        return vals[k % len(vals)]
    if label in FAM:
        return FAM[label][2][k % len(FAM[label][2])]
    return None


def apply_dev(frame, dev):
    """Return a new frame = frame with one deviation applied (None when the
    deviation cannot be applied to this frame)."""
    f = [[c[0], c[1], list(c[2])] + list(c[3:]) for c in frame]
    kind = dev[0]
    try:
        if kind == 'cell':
            _, ci, ri, new = dev
            col = f[ci]
            if isinstance(new, list) and new[0] == 'delta':
                if col[2][ri] is None:
                    return None
                col[2][ri] = col[2][ri] + new[1]
            else:
                if col[2][ri] == new and type(col[2][ri]) is type(new):
                    return None
                if new is not None and value_kind(new, col) != okind_of(col):
                    return None     # e.g. the file format changed the dtype
                col[2][ri] = new
        elif kind == 'rename':
            f[dev[1]][0] = dev[2]
        elif kind == 'dtype':
            f[dev[1]] = convert(f[dev[1]], dev[2])
        elif kind == 'swap':
            i, j = dev[1], dev[2]
            f[i], f[j] = f[j], f[i]
        elif kind == 'droprow':
            for c in f:
                del c[2][dev[1]]
        elif kind == 'revrows':
            for c in f:
                c[2].reverse()
        elif kind == 'rotrows':
            for c in f:
                if c[2]:
                    c[2].append(c[2].pop(0))
        elif kind == 'addrow':
            pos = dev[1]
            nulls = dev[3] if len(dev) > 3 else []
            for ci, c in enumerate(f):
                v = None if ci in nulls else filler(c, dev[2])
                if pos == 'end':
                    c[2].append(v)
                elif pos == 'mid':
                    c[2].insert(1, v)
                else:
                    c[2].insert(0, v)
        elif kind == 'extracol':
            _, pos, label = dev
            n = len(f[0][2]) if f else 0
            col = mk(EXTRA_NAME, label, pattern(label, n, 1))
            if pos == 'end':
                f.append(col)
            else:
                f.insert(0, col)
        elif kind == 'delcol':
            del f[dev[1]]
        else:
            raise ValueError(kind)
    except IndexError:
        return None
    if not valid(f):
        return None
    return f


def cell_devs(frame, nvals, deltas=True, cols=None, rows=None):
    for ci, col in enumerate(frame):
        if cols is not None and ci not in cols:
            continue
        label = col[1]
        if label not in FAM:
            continue
        al = alphabet(label, nvals)
        for ri, old in enumerate(col[2]):
            if rows is not None and ri not in rows:
                continue
            for new in al:
                if new != old or type(new) is not type(old):
                    yield ['cell', ci, ri, new]
            if label == 'float64' and old is not None and deltas:
                for d in FLOAT_DELTAS:
                    yield ['cell', ci, ri, ['delta', d]]


def structural_devs(frame, extra_labels=('int64',)):
    n = len(frame[0][2]) if frame else 0
    for ci, col in enumerate(frame):
        yield ['rename', ci, RENAME_TO]
        for nl in DTYPE_CHANGES.get(col[1], []):
            yield ['dtype', ci, nl]
        yield ['delcol', ci]
    for i in range(len(frame)):
        for j in range(i + 1, len(frame)):
            yield ['swap', i, j]
    for r in range(n):
        yield ['droprow', r]
    yield ['addrow', 'end', 0]
    yield ['addrow', 'front', 1]
    if n >= 2:
        yield ['revrows']
    if n >= 3:
        yield ['rotrows']
    for lab in extra_labels:
        yield ['extracol', 'end', lab]
        yield ['extracol', 'front', lab]


def single_devs(frame, nvals, deltas=True, extra_labels=('int64',)):
    for d in cell_devs(frame, nvals, deltas):
        yield d
    for d in structural_devs(frame, extra_labels):
        yield d


def dev_kind(dev):
    if dev[0] == 'cell':
        new = dev[3]
        if isinstance(new, list):
            return 'cell-delta'
        return 'cell-null' if new is None else 'cell'
    return dev[0]


def relevant_dims(dev):
    """Option dimensions that can (de)select the aspect a deviation touches;
    used to pick option points for the deviation layers (the model itself is
    general: it is given the whole option point)."""
    k = dev[0]
    if k == 'cell':
        return ['cd', 'prec', 'sort', 'cond', 'ct']
    if k == 'rename' or k == 'delcol':
        # the three per-kind selections first: a column that is absent can
        # be excluded from some kinds of check and not from others
        return ['ct', 'cd', 'co', 'sort', 'cx']
    if k == 'dtype':
        return ['ct', 'tm', 'cd', 'sort']
    if k == 'swap':
        return ['co', 'cd', 'ct']
    if k in ('droprow', 'addrow'):
        return ['cond', 'cd', 'sort']
    if k in ('revrows', 'rotrows'):
        return ['sort', 'cd', 'cond']
    if k == 'extracol':
        return ['cx', 'co', 'cd', 'ct']
    return DIMS


# ------------------------------------------------- file-layer frames (L1-xfiles)

def csv_triple():
    """Three columns that survive a CSV round trip unchanged."""
    return [mk('a', 'int64', [1, 3]), mk('b', 'float64', [2.0, None]),
            mk('c', 'str', ['a', 'B1'])]


def structural_plus_cells(frame, max_dtype=2):
    """Structural deviations (at most max_dtype dtype changes per column) +
    one cell deviation per column: together they make every per-kind column
    selection observable."""
    ndt = {}
    for d in structural_devs(frame):
        if d[0] == 'dtype':
            ndt[d[1]] = ndt.get(d[1], 0) + 1
            if ndt[d[1]] > max_dtype:
                continue
        yield d
    for ci, col in enumerate(frame):
        if col[1] not in FAM:
            continue
        for new in alphabet(col[1], 3):
            if new is not None and new != col[2][0]:
                yield ['cell', ci, 0, new]
                break
        if col[1] == 'float64' and col[2] and col[2][0] is not None:
            # seen at the default precision but not at 2 / seen only at 10
            yield ['cell', ci, 0, ['delta', 0.001]]
            yield ['cell', ci, 0, ['delta', 1e-07]]


# ------------------------------------------------------- histories (E3 layer)
#
# One reference frame and eight actual frames; every option of the menu flips
# the verdict of at least one pair.  In history ops the precision is OMITTED
# (None) unless the op names one.

HIST_REF = [mk('a', 'float64', [2.0, -1.25]), mk('b', 'int64', [1, 3]),
            mk('c', 'str', ['a', 'B1'])]
HIST_PAIRS = {
    'copy': [],
    'd4e-3': [['cell', 0, 0, ['delta', 0.004]]],
    'd1e-8': [['cell', 0, 0, ['delta', 1e-08]]],
    'dtype': [['dtype', 1, 'float64']],
    'swap': [['swap', 1, 2]],
    'extra': [['extracol', 'end', 'int64']],
    'rev': [['revrows']],
    'nullrow': [['addrow', 'front', 1, [0]]],
}
HIST_OPTION_OPS = [
    ('copy', {}),
    ('d4e-3', {}), ('d4e-3', {'prec': 2}), ('d4e-3', {'prec': 0}),
    ('d4e-3', {'prec': 10}), ('d4e-3', {'cd': 'fn'}),
    ('d1e-8', {}), ('d1e-8', {'prec': 10}), ('d1e-8', {'prec': 2}),
    ('dtype', {}), ('dtype', {'tm': 'permissive'}), ('dtype', {'tm': 'medium'}),
    ('dtype', {'ct': 'false'}), ('dtype', {'ct': 'list'}),
    ('swap', {}), ('swap', {'co': 'false'}), ('swap', {'co': 'list'}),
    ('extra', {}), ('extra', {'cx': 'false'}), ('extra', {'cx': 'list'}),
    ('rev', {}), ('rev', {'sort': 'first'}), ('rev', {'cd': 'false'}),
    ('nullrow', {}), ('nullrow', {'cond': 'notnull'}),
]
HIST_DEFAULT = dict(DEFAULT_OPTS, prec=None)


def hist_menu(which):
    """[entry, pair name, option point] for every op of the menu."""
    out = []
    entries = ('mem', 'chk', 'disk', 'pq') if which == 'full' else \
        ('mem', 'disk')
    for e in entries:
        for (pair, diff) in HIST_OPTION_OPS:
            if 'cx' in diff and e != 'chk':
                continue
            if 'tm' in diff and e == 'disk':
                continue
            if e == 'pq' and not (pair in ('d4e-3', 'd1e-8') and
                                  set(diff) <= set(('prec',))):
                continue
            out.append([e, pair, dict(HIST_DEFAULT, **diff)])
    return out


# ------------------------------------------ option pairs (L2-option-pairs)
#
# Deviations that exactly one option can neutralise, on two reference frames
# (one without nulls, one whose second row is excluded by the value-based
# condition `a is not null`).  For two deviations of different kinds the
# comparison passes iff BOTH neutralising options are honoured; the layer
# runs the full product of the two option menus (the model says which points
# must pass and which must fail).

PAIR_REFS = {
    'plain': [mk('a', 'float64', [2.0, -1.25, 0.0]),
              mk('b', 'int64', [1, 3, -2]),
              mk('c', 'str', ['a', 'B1', 'a'])],
    'nullrow': [mk('a', 'float64', [2.0, None, -1.25]),
                mk('b', 'int64', [1, 3, -2]),
                mk('c', 'str', ['a', 'B1', 'a'])],
}
#           kind        deviation                           neutralising menu
NEUTRAL = [
    ('order', ['revrows'], {'sort': [None, 'first']}),
    ('order', ['rotrows'], {'sort': [None, 'first']}),
    ('rows', ['addrow', 'front', 1, [0]],
     {'cond': [None, 'all', 'notnull', 'none']}),
    ('rows', ['addrow', 'end', 0, [0]],
     {'cond': [None, 'all', 'notnull', 'none']}),
    ('rows', ['addrow', 'mid', 1, [0]],
     {'cond': [None, 'all', 'notnull', 'none']}),
    ('rows', ['droprow', 1], {'cond': [None, 'all', 'notnull', 'none']}),
    ('prec', ['cell', 0, 0, ['delta', 0.001]], {'prec': [6, 2]}),
    ('type', ['dtype', 1, 'float64'],
     {'ct': ['none', 'false', 'list'], 'tm': [None, 'permissive']}),
    ('colorder', ['swap', 1, 2], {'co': ['none', 'false', 'list']}),
    ('extra', ['extracol', 'end', 'int64'],
     {'cx': ['none', 'false', 'list']}),
    ('data', ['cell', 2, 0, 'B1'], {'cd': ['none', 'list', 'false']}),
]


def neutral_combos(k):
    """Every set of k neutralisable deviations of pairwise different kinds,
    on every reference frame it applies to: (ref name, [devs], menu)."""
    for refname in ('plain', 'nullrow'):
        ref = PAIR_REFS[refname]
        for combo in itertools.combinations(range(len(NEUTRAL)), k):
            kinds = [NEUTRAL[i][0] for i in combo]
            if len(set(kinds)) != k:
                continue
            devs = [NEUTRAL[i][1] for i in combo]
            # the excluded-row deviations: adding on 'plain', dropping the
            # reference's own excluded row on 'nullrow'
            if refname == 'plain' and ['droprow', 1] in devs:
                continue
            if refname == 'nullrow' and any(d[0] == 'addrow' for d in devs):
                continue
            f = ref
            for d in devs:
                f = apply_dev(f, d) if f is not None else None
            if f is None:
                continue
            menu = {}
            for i in combo:
                menu.update(NEUTRAL[i][2])
            yield refname, devs, menu


# ------------------------------------------- type pairs (L1-type-pairs layer)
#
# Every pair of dtype points, as (actual, expected) AND as (expected, actual),
# on a column whose values agree or are not checked, so that only the TYPE
# clause decides - under every type_matching level.  A type point is a dtype
# label, or 'object:<kind>' for an object column holding values of that kind.

TYPE_POINTS = ['int64', 'int32', 'Int64', 'Int32',
               'float64', 'float32', 'Float64',
               'bool', 'boolean',
               'object:text', 'object:int', 'object:float', 'object:bool',
               'str', 'string', 'category',
               'datetime64[ns]', 'datetime64[us]']
TP_VALUES = {'int': [1, 3], 'float': [1.0, 3.0], 'bool': [True, False],
             'text': ['a', 'B1'],
             'datetime': ['2000-01-01T00:00:00', '1999-12-31T23:59:59']}
TP_VARIANTS = ['empty', 'null', 'values']


def tp_label(tp):
    return tp.split(':')[0]


def tp_kind(tp):
    return tp.split(':')[1] if ':' in tp else KIND[tp]


def tp_family(tp):
    """Label without its bit width / unit (for signatures)."""
    lab = ''.join(ch for ch in tp_label(tp) if not ch.isdigit())
    lab = lab.split('[')[0]
    return lab + (':' + tp_kind(tp) if ':' in tp and tp_kind(tp) != 'text'
                  else '')


def tp_col(name, tp, values):
    col = [name, tp_label(tp), list(values)]
    if ':' in tp and tp_kind(tp) != 'text':
        col.append(tp_kind(tp))
    return col


def type_pairs():
    """Unordered pairs (incl. a point with itself) of type points."""
    for i, x in enumerate(TYPE_POINTS):
        for y in TYPE_POINTS[i:]:
            yield x, y


def tp_frames(x, y, variant):
    """(frame with the x column, frame with the y column, do the values of
    the two columns agree) or None when the variant does not apply.  Both
    frames are  a = the column under test, b = an int64 column that is the
    same on both sides."""
    if variant == 'empty':
        vx, vy, vb, agree = [], [], [], True
    elif variant == 'null':
        if tp_label(x) in NO_NULL or tp_label(y) in NO_NULL:
            return None
        vx, vy, vb, agree = [None, None], [None, None], [1, 3], True
    elif variant == 'values':
        kx, ky = tp_kind(x), tp_kind(y)
        vx, vy, vb = TP_VALUES[kx], TP_VALUES[ky], [1, 3]
        agree = kx == ky or set((kx, ky)) == set(('int', 'float'))
    else:
        raise ValueError(variant)
    return ([tp_col('a', x, vx), mk('b', 'int64', vb)],
            [tp_col('a', y, vy), mk('b', 'int64', vb)], agree)


def tp_points(agree, entry):
    """Option points of a type-pair case: every type_matching level x every
    form of check_types (x check_data on / off when the values agree; off
    only when they are of different kinds)."""
    cds = ['none', 'false'] if agree else ['false']
    cts = FLAGS if entry == 'chk' else ['none']
    for tm in DIM_VALUES['tm']:
        for ct in cts:
            for cd in cds:
                yield opts_with(tm=tm, ct=ct, cd=cd)


# ------------------------------- shared frame objects (H2-shared-frames layer)
#
# Histories of comparisons that are given the SAME DataFrame objects (the
# caller builds its two frames once and checks them slice by slice, or first
# against one reference and then against another).  The reference has a row
# that the value-based condition excludes; the actual frames differ from it
# inside / outside the slices the conditions select.

SHARED_REF = [mk('a', 'float64', [2.0, None, -1.25]),
              mk('b', 'int64', [1, 3, -2]),
              mk('c', 'str', ['a', 'B1', 'a'])]
SHARED_PAIRS = {
    'copy': [],
    'self': [],                      # ONE object given as actual and expected
    'cell-row0': [['cell', 1, 0, 0]],   # kept by notnull, not by dropfirst
    'cell-row1': [['cell', 1, 1, 0]],   # kept by dropfirst, not by notnull
    'rev': [['revrows']],
    'nullrow': [['addrow', 'front', 1, [0]]],
}
SHARED_PAIR_ORDER = ['copy', 'self', 'cell-row0', 'cell-row1', 'rev',
                     'nullrow']
SHARED_OPTS = [
    {}, {'cond': 'all'}, {'cond': 'notnull'}, {'cond': 'dropfirst'},
    {'cond': 'none'}, {'sort': 'first'},
    {'sort': 'first', 'cond': 'notnull'}, {'cd': 'false'},
]
SHARED_ENTRIES = ('mem', 'chk', 'pq', 'csv')


def shared_menu(pair):
    """[entry, option point] for every op on the frames of `pair`."""
    out = []
    for e in SHARED_ENTRIES:
        if pair == 'self' and e not in ('mem', 'chk'):
            continue
        for diff in SHARED_OPTS:
            out.append([e, opts_with(**diff)])
    return out
