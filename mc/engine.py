"""
Bounded exhaustive exploration engine for the tdda checks (see DESIGN.md §2).

A *check* (subclass of Check) declares ordered layers, a deterministic case
generator per layer, and run_case(case) which executes the REAL tdda code on
that case and compares with its reference model / invariant.  The engine

  * enumerates every case of every layer (never samples), sharded by stride
    over long-lived spawned worker processes (fixed PYTHONHASHSEED),
  * finishes each layer before starting the next, honours VERIF_BUDGET_S and
    reports which layers were completed,
  * groups violations by signature, separates known findings (listed in
    /verif/known_findings.json) from new ones, re-executes every new one twice
    in a fresh process (determinism gate) and writes a replay file,
  * writes /verif/evidence/<id>.json and validates it against the schema.

Exit status: 0 held (KNOWN-FINDING lines allowed), 1 violation, 2 harness error.
"""

import collections
import hashlib
import json
import multiprocessing
import os
import subprocess
import sys
import time
import traceback

VERIF = os.path.dirname(os.path.dirname(os.path.abspath(__file__)))
TDDA_SRC = os.path.abspath(os.environ.get('TDDA_SRC', '/repo'))
EVIDENCE_DIR = os.environ.get('VERIF_EVIDENCE_DIR') or os.path.join(VERIF, 'evidence')
REPLAY_DIR = os.environ.get('VERIF_REPLAY_DIR') or os.path.join(VERIF, 'replays')
KNOWN_FINDINGS = os.path.join(VERIF, 'known_findings.json')
EVIDENCE_SCHEMA = '/root/.vp/EVIDENCE.schema.json'
PYTHON = sys.executable


def install_tdda_path():
    """Make `import tdda` resolve to the tree under test (TDDA_SRC)."""
    if sys.path[0] != TDDA_SRC:
        if TDDA_SRC in sys.path:
            sys.path.remove(TDDA_SRC)
        sys.path.insert(0, TDDA_SRC)
    sys.dont_write_bytecode = True


class Res(object):
    """Accumulator returned by Check.run_case."""
    __slots__ = ('evals', 'checked', 'states', 'transitions', 'nontrivial',
                 'outcomes', 'unspec', 'violations', 'key')

    def __init__(self):
        self.evals = 0          # executions of the real API
        self.checked = 0        # model-vs-implementation comparisons made
        self.states = 0         # distinct states reached (E3) / cases (E1)
        self.transitions = 0    # real operations executed
        self.nontrivial = False
        self.outcomes = collections.Counter()
        self.unspec = 0
        self.violations = []
        self.key = None         # canonical key of the case (for distinct count)

    def ev(self, n=1, checked=None):
        self.evals += n
        self.transitions += n
        self.checked += n if checked is None else checked

    def out(self, tag, n=1):
        self.outcomes[str(tag)] += n

    def viol(self, sig, clause, detail=None, sub=None):
        """sig: narrow root-cause signature; clause: which oracle clause;
        sub: identifies the sub-case inside a case that loops internally."""
        self.violations.append({'sig': str(sig), 'clause': str(clause),
                                'detail': detail, 'sub': sub})


class Check(object):
    pid = 'C00'
    title = ''
    technique = 'bounded exhaustive enumeration on the real code'
    rule = ''
    assumptions = []

    def hashseeds(self, tier, verif_seed):
        return [0]

    def layers(self, tier):
        """Ordered list of (name, description)."""
        raise NotImplementedError

    def cases(self, tier, layer):
        """Deterministic iterator of JSON-serialisable cases of one layer."""
        raise NotImplementedError

    def setup_worker(self, tier):
        pass

    def run_case(self, case):
        raise NotImplementedError

    def teardown_worker(self):
        pass

    def extra_coverage(self):
        return {}


def load_check(pid):
    install_tdda_path()
    import importlib
    mod = importlib.import_module('mc.checks.%s' % pid.lower())
    return mod.CHECK


def _origin_of(exc):
    """'tdda' if the innermost traceback frame inside TDDA_SRC or site
    libraries called from it; 'harness' if the exception was raised by code
    under /verif/mc with no tdda frame below it."""
    tb = traceback.extract_tb(exc.__traceback__)
    saw_tdda = False
    for fr in tb:
        fn = os.path.abspath(fr.filename)
        if fn.startswith(os.path.join(TDDA_SRC, 'tdda')):
            saw_tdda = True
    return 'tdda' if saw_tdda else 'harness'


class CaseTimeout(BaseException):
    pass


def _on_alarm(signum, frame):
    raise CaseTimeout()


CASE_TIMEOUT_S = int(os.environ.get('VERIF_CASE_TIMEOUT_S', '300') or 300)


def safe_run_case(check, case):
    import signal
    old = signal.signal(signal.SIGALRM, _on_alarm)
    signal.alarm(CASE_TIMEOUT_S)
    try:
        return _safe_run_case(check, case)
    except CaseTimeout:
        r = Res()
        r.ev()
        r.nontrivial = True
        r.out('timeout')
        r.viol('timeout', 'terminates',
               {'note': 'case did not finish within %d s' % CASE_TIMEOUT_S})
        return r, None
    finally:
        signal.alarm(0)
        signal.signal(signal.SIGALRM, old)


def _safe_run_case(check, case):
    """Run one case; an exception escaping from tdda code (the driver did not
    expect it) is a violation of the property being checked ("internal
    error"), an exception from the harness itself is a harness error."""
    try:
        r = check.run_case(case)
        if r is None:
            r = Res()
        return r, None
    except BaseException as e:       # includes SystemExit from tdda code
        if isinstance(e, (KeyboardInterrupt, CaseTimeout)):
            raise
        origin = _origin_of(e)
        tbtxt = ''.join(traceback.format_exception(type(e), e,
                                                   e.__traceback__))[-3000:]
        if origin == 'tdda':
            r = Res()
            r.ev()
            r.nontrivial = True
            r.out('uncaught:%s' % type(e).__name__)
            r.viol('uncaught:%s' % type(e).__name__, 'no-internal-error',
                   {'exception': repr(e)[:500], 'traceback': tbtxt})
            return r, None
        return None, tbtxt


_W = {}


def _worker_init(pid, tier, src):
    os.environ['TDDA_SRC'] = src
    global TDDA_SRC
    TDDA_SRC = src
    install_tdda_path()
    import warnings
    warnings.filterwarnings('ignore')
    check = load_check(pid)
    check.setup_worker(tier)
    _W['check'] = check
    _W['tier'] = tier
    import atexit
    atexit.register(check.teardown_worker)


def _case_key(case):
    return json.dumps(case, sort_keys=True, ensure_ascii=True, default=str)


def _worker_layer(args):
    layer, rank, nworkers, deadline, max_viol = args
    check = _W['check']
    tier = _W['tier']
    _W.setdefault('tasks', []).append([layer, rank, nworkers])
    agg = {
        'cases': 0, 'evals': 0, 'checked': 0, 'states': 0, 'transitions': 0,
        'unspec': 0, 'nontrivial_keys': set(), 'outcomes':
        collections.Counter(), 'violations': [], 'viol_counts':
        collections.Counter(), 'samples': [], 'complete': True,
        'harness_errors': [],
    }
    for i, case in enumerate(check.cases(tier, layer)):
        if i % nworkers != rank:
            continue
        if deadline and time.time() > deadline:
            agg['complete'] = False
            break
        r, herr = safe_run_case(check, case)
        if herr is not None:
            agg['harness_errors'].append({'case': case, 'traceback': herr})
            if len(agg['harness_errors']) > 3:
                agg['complete'] = False
                break
            continue
        agg['cases'] += 1
        agg['evals'] += r.evals
        agg['checked'] += r.checked
        agg['states'] += r.states if r.states else 1
        agg['transitions'] += r.transitions
        agg['unspec'] += r.unspec
        agg['outcomes'].update(r.outcomes)
        if r.nontrivial:
            k = r.key if r.key is not None else _case_key(case)
            agg['nontrivial_keys'].add(
                int.from_bytes(hashlib.blake2b(k.encode('utf-8', 'replace'),
                                               digest_size=8).digest(), 'big'))
        if len(agg['samples']) < 2 and rank == 0:
            agg['samples'].append({'layer': layer, 'case': case,
                                   'outcomes': dict(r.outcomes)})
        for v in r.violations:
            agg['viol_counts'][v['sig']] += 1
            if agg['viol_counts'][v['sig']] <= max_viol:
                vv = dict(v)
                vv['case'] = case
                vv['layer'] = layer
                vv['index'] = i
                vv['worker_tasks'] = [list(t) for t in _W['tasks']]
                agg['violations'].append(vv)
    return agg


def load_known(pid):
    if not os.path.exists(KNOWN_FINDINGS):
        return {}
    with open(KNOWN_FINDINGS) as f:
        d = json.load(f)
    return dict((k['sig'], k) for k in d.get('findings', [])
                if k.get('property') == pid and k.get('status', 'open') == 'open')


def tree_id():
    try:
        head = subprocess.run(['git', '-C', TDDA_SRC, 'rev-parse', 'HEAD'],
                              capture_output=True, text=True).stdout.strip()
        dirty = subprocess.run(['git', '-C', TDDA_SRC, 'status', '--porcelain'],
                               capture_output=True, text=True).stdout.strip()
        return head + ('+dirty' if dirty else '')
    except Exception:
        return 'unknown'


def replay_observation(pid, tier, case):
    """Run one case in a fresh process; return sorted list of (sig, clause)."""
    import tempfile
    fd, path = tempfile.mkstemp(prefix='mc_case_', suffix='.json',
                                dir=os.environ.get('VERIF_SCRATCH', '/var/tmp'))
    with os.fdopen(fd, 'w') as f:
        json.dump({'property': pid, 'tier': tier, 'case': case}, f)
    try:
        env = dict(os.environ)
        env['TDDA_SRC'] = TDDA_SRC
        p = subprocess.run([PYTHON, '-m', 'mc.run', pid, '--replay', path,
                            '--json'], capture_output=True, text=True,
                           cwd=VERIF, env=env, timeout=600)
        for line in p.stdout.splitlines():
            if line.startswith('OBSERVATION '):
                return json.loads(line[len('OBSERVATION '):])
        return {'error': (p.stdout + p.stderr)[-2000:]}
    finally:
        os.unlink(path)


def run_history(check, tier, tasks, index):
    """Re-execute, in this (fresh) process, exactly the sequence of cases a
    worker executed: every (layer, rank, nworkers) task in order, the last one
    up to and including case number `index`.  Returns (Res of that last case,
    harness error).  Used when a violation does not reproduce on its own:
    the code under test then depends on what ran before it in the process."""
    check.setup_worker(tier)
    last = None
    try:
        for ti, (layer, rank, nworkers) in enumerate(tasks):
            final = ti == len(tasks) - 1
            for i, case in enumerate(check.cases(tier, layer)):
                if i % nworkers != rank:
                    continue
                r, herr = safe_run_case(check, case)
                if herr is not None and final and i == index:
                    return None, herr
                if final and i == index:
                    last = r
                    break
    finally:
        check.teardown_worker()
    return last, None


def replay_history_observation(pid, tier, tasks, index):
    import tempfile
    fd, path = tempfile.mkstemp(prefix='mc_hist_', suffix='.json',
                                dir=os.environ.get('VERIF_SCRATCH', '/var/tmp'))
    with os.fdopen(fd, 'w') as f:
        json.dump({'property': pid, 'tier': tier, 'history': tasks,
                   'index': index}, f)
    try:
        env = dict(os.environ)
        env['TDDA_SRC'] = TDDA_SRC
        p = subprocess.run([PYTHON, '-m', 'mc.run', pid, '--replay', path,
                            '--json'], capture_output=True, text=True,
                           cwd=VERIF, env=env, timeout=7200)
        for line in p.stdout.splitlines():
            if line.startswith('OBSERVATION '):
                return json.loads(line[len('OBSERVATION '):])
        return {'error': (p.stdout + p.stderr)[-2000:]}
    finally:
        os.unlink(path)


def run_single(check, tier, case):
    check.setup_worker(tier)
    try:
        r, herr = safe_run_case(check, case)
    finally:
        check.teardown_worker()
    if herr is not None:
        return None, herr
    return r, None


def sigs_of(r):
    return sorted(set((v['sig'], v['clause']) for v in r.violations))


def validate_evidence(path):
    code = ("import json,sys,jsonschema;"
            "s=json.load(open(%r));d=json.load(open(%r));"
            "jsonschema.Draft202012Validator(s).validate(d)"
            % (EVIDENCE_SCHEMA, path))
    try:
        p = subprocess.run(['python3-vt', '-c', code], capture_output=True,
                           text=True, timeout=120)
        if p.returncode != 0:
            return p.stderr[-1500:]
        return None
    except FileNotFoundError:
        d = json.load(open(path))
        for k in ('property_id', 'tier', 'seed', 'level', 'coverage', 'wall_s'):
            if k not in d:
                return 'missing key %s' % k
        return None


def explore(pid, tier, nworkers=None, budget_s=None, only_layers=None,
            verbose=True):
    t0 = time.time()
    verif_seed = int(os.environ.get('VERIF_SEED', '0') or 0)
    install_tdda_path()
    check = load_check(pid)
    nworkers = nworkers or int(os.environ.get('VERIF_WORKERS', '0') or 0) \
        or min(16, os.cpu_count() or 1)
    if budget_s is None:
        b = os.environ.get('VERIF_BUDGET_S')
        budget_s = float(b) if b else (None if tier == 'quick' else 1500.0)
    deadline = (t0 + budget_s) if budget_s else None
    layers = check.layers(tier)
    if only_layers:
        layers = [l for l in layers if l[0] in only_layers]
    known = load_known(pid)
    max_viol = 3

    total = collections.Counter()
    outcomes = collections.Counter()
    nontrivial = set()
    violations = []
    viol_counts = collections.Counter()
    samples = []
    layers_done = []
    layers_capped = []
    harness_errors = []
    per_layer = {}
    seeds = check.hashseeds(tier, verif_seed)

    for hs in seeds:
        os.environ['PYTHONHASHSEED'] = str(hs)
        os.environ['PYTHONDONTWRITEBYTECODE'] = '1'
        ctx = multiprocessing.get_context('spawn')
        pool = ctx.Pool(nworkers, initializer=_worker_init,
                        initargs=(pid, tier, TDDA_SRC))
        try:
            for (lname, ldesc) in layers:
                if deadline and time.time() > deadline:
                    layers_capped.append('%s@hashseed%d' % (lname, hs))
                    continue
                tl = time.time()
                limit = max(1800.0, 3.0 * budget_s) if budget_s else 7200.0
                try:
                    parts = pool.map_async(
                        _worker_layer,
                        [(lname, r, nworkers, deadline, max_viol)
                         for r in range(nworkers)], chunksize=1).get(limit)
                except multiprocessing.TimeoutError:
                    print('HARNESS-ERROR: layer %s did not finish within %d s '
                          '(worker died or hung)' % (lname, limit))
                    pool.terminate()
                    return 2
                complete = all(p['complete'] for p in parts)
                lc = collections.Counter()
                for p in parts:
                    for k in ('cases', 'evals', 'checked', 'states',
                              'transitions', 'unspec'):
                        total[k] += p[k]
                        lc[k] += p[k]
                    outcomes.update(p['outcomes'])
                    nontrivial |= p['nontrivial_keys']
                    violations.extend(p['violations'])
                    viol_counts.update(p['viol_counts'])
                    harness_errors.extend(p['harness_errors'])
                    if len(samples) < 8:
                        samples.extend(p['samples'][:1])
                tag = lname if len(seeds) == 1 else '%s@hashseed%d' % (lname, hs)
                per_layer[tag] = {'cases': lc['cases'], 'evals': lc['evals'],
                                  'complete': complete,
                                  'wall_s': round(time.time() - tl, 2)}
                (layers_done if complete else layers_capped).append(tag)
                if verbose:
                    print('[%s] layer %-28s cases=%d evals=%d %s %.1fs'
                          % (pid, tag, lc['cases'], lc['evals'],
                             'complete' if complete else 'CAPPED',
                             time.time() - tl), flush=True)
        finally:
            pool.close()
            pool.join()

    # ---- classify violations --------------------------------------------
    by_sig = collections.OrderedDict()
    for v in sorted(violations, key=lambda v: (v['sig'], len(_case_key(v['case'])),
                                               _case_key(v['case']))):
        by_sig.setdefault(v['sig'], []).append(v)
    status = 0
    known_cases = 0
    new_sigs = []
    for sig, vs in by_sig.items():
        if sig in known:
            known_cases += viol_counts[sig]
            print('KNOWN-FINDING: property=%s %s [sig=%s, %d case(s) in this run]'
                  % (pid, known[sig].get('what', ''), sig, viol_counts[sig]))
        else:
            new_sigs.append(sig)
    os.makedirs(os.path.join(REPLAY_DIR, pid), exist_ok=True)
    for sig in new_sigs[:8]:
        v = by_sig[sig][0]
        want = sorted(set((x['sig'], x['clause']) for x in violations
                          if _case_key(x['case']) == _case_key(v['case'])))
        o1 = replay_observation(pid, tier, v['case'])
        o2 = replay_observation(pid, tier, v['case'])
        history = None
        if o1 != o2 or 'error' in o1:
            print('HARNESS-ERROR: nondeterministic replay of one case '
                  'sig=%s\n worker=%r\n replay1=%r\n replay2=%r'
                  % (sig, want, o1, o2))
            status = max(status, 2)
            continue
        if not set(tuple(x) for x in o1['sigs']) >= set([(sig, v['clause'])]):
            # Deterministically absent when the case runs alone in a fresh
            # process: does it depend on the cases that ran before it in the
            # worker?  Replay that exact history, twice, in fresh processes.
            tasks = v.get('worker_tasks') or []
            h1 = replay_history_observation(pid, tier, tasks, v['index'])
            h2 = replay_history_observation(pid, tier, tasks, v['index'])
            if h1 != h2 or 'error' in h1 or not \
                    set(tuple(x) for x in h1['sigs']) >= set([(sig, v['clause'])]):
                print('HARNESS-ERROR: irreproducible violation sig=%s\n '
                      'worker=%r\n alone=%r\n history1=%r\n history2=%r'
                      % (sig, want, o1, h1, h2))
                status = max(status, 2)
                continue
            history = {'tasks': tasks, 'index': v['index'],
                       'note': 'the violation appears only after the preceding '
                               'cases of this worker ran in the same process '
                               '(state shared across calls); absent when the '
                               'case runs alone'}
        h = hashlib.sha1(sig.encode('utf-8')).hexdigest()[:10]
        path = os.path.join(REPLAY_DIR, pid, '%s.json' % h)
        with open(path, 'w') as f:
            json.dump({'property': pid, 'tier': tier, 'sig': sig,
                       'clause': v['clause'], 'layer': v['layer'],
                       'case': v['case'], 'sub': v['sub'], 'detail': v['detail'],
                       'cases_with_this_sig': viol_counts[sig],
                       'history': history['tasks'] if history else None,
                       'index': v['index'],
                       'history_note': history['note'] if history else None,
                       'tree': tree_id()}, f, indent=1, default=str,
                      ensure_ascii=False)
        print('VIOLATION property=%s replay=%s' % (pid, path))
        print('  sig=%s clause=%s cases=%d%s' % (
            sig, v['clause'], viol_counts[sig],
            ' HISTORY-DEPENDENT (reproduces only after the preceding cases '
            'of its worker)' if history else ''))
        print('  detail=%s' % json.dumps(v['detail'], default=str,
                                         ensure_ascii=False)[:600])
        status = max(status, 1)
    if len(new_sigs) > 8:
        print('(%d further new violation signatures not written out)'
              % (len(new_sigs) - 8))
    for he in harness_errors[:3]:
        print('HARNESS-ERROR: exception in harness code\n case=%s\n%s'
              % (json.dumps(he['case'], default=str)[:400], he['traceback']))
        status = 2

    # ---- evidence -----------------------------------------------------------
    wall = time.time() - t0
    exhaustive = (not layers_capped) and not harness_errors
    cov = {
        'states': int(total['states']),
        'transitions': int(total['transitions']),
        'traces_validated_against_impl': int(total['checked']),
        'samples': samples[:6] or [{'note': 'no cases'}],
        'evaluations': int(total['evals']),
        'distinct_nontrivial': len(nontrivial),
        'rule': check.rule,
        'exhaustive': bool(exhaustive),
        'cases': int(total['cases']),
        'layers_completed': layers_done,
        'layers_capped': layers_capped,
        'per_layer': per_layer,
        'distinct_outcomes': len(outcomes),
        'outcome_counts': dict(outcomes.most_common(40)),
        'unspecified_cases': int(total['unspec']),
        'known_finding_cases': int(known_cases),
        'new_violation_signatures': new_sigs[:50],
        'budget_s': budget_s,
        'workers': nworkers,
        'hash_seeds': seeds,
        'tree': tree_id(),
        'tdda_src': TDDA_SRC,
    }
    cov.update(check.extra_coverage() or {})
    ev = {
        'property_id': pid, 'tier': tier, 'seed': verif_seed,
        'level': 'model_checking', 'coverage': cov,
        'assumptions': list(check.assumptions),
        'wall_s': round(wall, 2),
        'violations': len(new_sigs),
    }
    os.makedirs(EVIDENCE_DIR, exist_ok=True)
    evpath = os.path.join(EVIDENCE_DIR, '%s.json' % pid)
    with open(evpath, 'w') as f:
        json.dump(ev, f, indent=1, default=str, ensure_ascii=False)
        f.write('\n')
    err = validate_evidence(evpath)
    if err:
        print('HARNESS-ERROR: evidence does not validate: %s' % err)
        status = 2
    if total['cases'] == 0:
        print('HARNESS-ERROR: no cases explored')
        status = 2
    print('[%s] %s tier=%s cases=%d evals=%d nontrivial=%d outcomes=%d '
          'unspecified=%d known=%d new_sigs=%d exhaustive=%s wall=%.1fs'
          % (pid, 'OK' if status == 0 else 'FAIL(%d)' % status, tier,
             total['cases'], total['evals'], len(nontrivial), len(outcomes),
             total['unspec'], known_cases, len(new_sigs), exhaustive, wall))
    return status


# ---------------------------------------------------------------------------
# E2: stateless choice-point explorer (deviation-bounded DFS)
# ---------------------------------------------------------------------------

class Diverged(Exception):
    pass


class Chooser(object):
    """Answers choose(n) from a prefix, then 0; records (choice, n)."""

    def __init__(self, prefix=()):
        self.prefix = list(prefix)
        self.trace = []

    def choose(self, n):
        i = len(self.trace)
        if n <= 0:
            raise Diverged('choose(%d)' % n)
        c = self.prefix[i] if i < len(self.prefix) else 0
        if c >= n:
            raise Diverged('prefix choice %d out of range %d at %d' % (c, n, i))
        self.trace.append((c, n))
        return c


def explore_choices(run, bound=None, max_execs=None):
    """run(chooser) -> observation.  Yields (choices, observation) for every
    complete execution whose number of non-zero choices is <= bound (None =
    unbounded, i.e. the full choice tree).  Returns when exhausted."""
    stack = [[]]
    n = 0
    while stack:
        prefix = stack.pop()
        ch = Chooser(prefix)
        obs = run(ch)
        if len(ch.trace) < len(prefix):
            raise Diverged('execution shorter than its prefix %r' % (prefix,))
        choices = [c for (c, _) in ch.trace]
        yield choices, obs
        n += 1
        if max_execs and n >= max_execs:
            return
        for i in range(len(ch.trace) - 1, len(prefix) - 1, -1):
            base = choices[:i]
            dev = sum(1 for c in base if c)
            if bound is not None and dev + 1 > bound:
                continue
            for alt in range(1, ch.trace[i][1]):
                stack.append(base + [alt])
