"""
Alphabets for C02 / C06: columns (DESIGN 3.1) and boundary-derived constraint
values (DESIGN 4 C02), as small JSON-encodable cases plus decoders to real
pandas objects and to plain Python values for the reference model.

Encoding of one data value (JSON):
    None                     null (NaN / NaT / pd.NA / None as the family wants)
    bool / int / float / str themselves
    ['f', 'inf'|'-inf']      non-finite float
    ['t', ns]                instant, integer nanoseconds since 1970-01-01 (UTC
                             for the tz-aware families, wall time otherwise)
    ['d', 'YYYY-MM-DD']      datetime.date object (family dateobj)
A column is {'fam': <family>, 'vals': [encoded...]}.

Encoding of a constraint bound is the same, plus
    ['ds', 'text']           date bound given as text (the .tdda form; the
                             harness adds "type": "date" next to it so that
                             tdda parses it)
    ['dto', ns]              date bound given as a naive datetime object
    ['dta', ns]              date bound given as an aware (UTC) datetime object
    ['dsa', 'text+00:00']    aware date bound given as text

No pandas / tdda import at module level: generators must be cheap and
process-independent.  Nothing here is random.
"""
import datetime
import itertools
import math
from fractions import Fraction

EPOCH = datetime.datetime(1970, 1, 1)
NS = {'s': 10 ** 9, 'ms': 10 ** 6, 'us': 10 ** 3, 'ns': 1}
DAY = 86400 * 10 ** 9


def _ns(y, mo, d, h=0, mi=0, s=0, frac_ns=0):
    dt = datetime.datetime(y, mo, d, h, mi, s) - EPOCH
    return (dt.days * 86400 + dt.seconds) * 10 ** 9 + frac_ns


def _dt_values(unit):
    last = {'s': 0, 'ms': 999000000, 'us': 999999000, 'ns': 999999999}[unit]
    return [None, ['t', _ns(1999, 12, 31, 23, 59, 59, last)],
            ['t', _ns(2000, 1, 1)], ['t', _ns(2000, 2, 29, 12)]]


FAMILIES = {
    # name: (tdda type class, value alphabet)
    'i64': [-2, 0, 1, 3],
    'u8': [0, 1, 255],
    'i64x': [-(2 ** 63) + 1, -1, 2 ** 62],
    'Int64': [None, -1, 0, 2],
    'f64': [None, -1.5, 0.0, 2.0, 2.5],
    'f64inf': [None, ['f', '-inf'], ['f', 'inf'], 1.0],
    'bool': [True, False],
    'boolobj': [None, True, False],
    'boolean': [None, True, False],
    'strobj': [None, '', 'a', 'B1', 'é²', "o'q\\", 'x y', '^', '-'],
    'cat': [None, 'a', 'B1', 'é²'],
    'dt_s': _dt_values('s'),
    'dt_ms': _dt_values('ms'),
    'dt_us': _dt_values('us'),
    'dt_ns': _dt_values('ns'),
    'dttz_utc': _dt_values('us'),
    'dttz_0530': _dt_values('us'),
    'dateobj': [None, ['d', '1999-12-31'], ['d', '2000-01-01']],
}
STR_QUICK = [None, '', 'a', 'B1', 'é²']

NUMERIC = ('i64', 'u8', 'i64x', 'Int64', 'f64', 'f64inf', 'bool', 'boolobj',
           'boolean')
INTLIKE = ('i64', 'u8', 'i64x', 'Int64')
REAL = ('f64', 'f64inf')
BOOLS = ('bool', 'boolobj', 'boolean')
STRINGS = ('strobj', 'cat', 'manycat')
DATES = ('dt_s', 'dt_ms', 'dt_us', 'dt_ns', 'dttz_utc', 'dttz_0530',
         'dateobj')
TZAWARE = ('dttz_utc', 'dttz_0530')
OBJECT_DTYPE = ('boolobj', 'strobj', 'dateobj', 'manycat')

FIELD_NAMES = ['a', 'b c', 'é', 'min', 'a_min_ok', '#x']

KINDS = ['type', 'min', 'max', 'min_length', 'max_length', 'sign',
         'max_nulls', 'no_duplicates', 'allowed_values', 'rex']
SIGNS = ['positive', 'non-negative', 'zero', 'non-positive', 'negative',
         'null']
TYPES = ['bool', 'int', 'real', 'string', 'date']
TYPE_VALUES_BASIC = ['bool', 'int', 'real', 'string', 'date', ['int', 'real'],
                     ['bool', 'string'], None]
# every single type as a scalar and as a one-element list, every pair as a
# list in both orders, the triple int/real/bool (two orders), null
TYPE_VALUES = (TYPE_VALUES_BASIC
               + [[t] for t in TYPES]
               + [[a, b] for a in TYPES for b in TYPES
                  if a != b and [a, b] not in TYPE_VALUES_BASIC]
               + [['int', 'real', 'bool'], ['bool', 'real', 'int']])

# ---- regular-expression feature alphabet: (expression, witness value it
# alone matches among the witnesses, feature)
REX_ALPHABET = [
    ('^([a-z]+)-(\\d+)$', 'ab-12', 'capture groups, classes, quantifiers'),
    ('^(\\d)\\1$', '77', 'numbered back-reference'),
    ('^(?P<c>[a-z])(?P=c)$', 'qq', 'named group and back-reference'),
    ('(?i)^AB$', 'Ab', 'inline flag (?i) at the start'),
    ('^(?:cow|dog)$', 'cow', 'alternation inside a group'),
    ('^cat|hen$', 'cat', 'top-level alternation'),
    ('^x.y$', 'x\ny', 'dot against a newline'),
    ('(?s)^p.q$', 'p\nq', 'inline flag (?s)'),
    ('^z$', 'z\n', 'dollar before a final newline'),
    ('^\\w\\d!$', 'é٣!', 'unicode word / digit classes'),
    ('(?x) ^ k \\s k $', 'k k', 'inline flag (?x)'),
    ('B-1', 'B-1', 'no anchors'),
    ('^[^a-z0-9]{2,3}\\?$', '##?', 'negated class, counted quantifier'),
]
REX_NOMATCH = 'ZZZ9'


def rex_subsets(maxn):
    """All index subsets of the expression alphabet of size 1..maxn."""
    n = len(REX_ALPHABET)
    for k in range(1, maxn + 1):
        for sub in itertools.combinations(range(n), k):
            yield list(sub)

# ---- FORM of a path argument (constraints_path of verify_df / detect_df,
# outpath of detect_df): the same file named as a str, as a relative str, as
# a pathlib.Path, as a pure path and as a minimal os.PathLike object.  (bytes
# paths are not in the alphabet: nothing documents them.)
PATH_FORMS = ['str', 'relative-str', 'pathlib.Path', 'pathlib.PurePosixPath',
              'os.PathLike']


class FsPath(object):
    """The smallest os.PathLike: nothing but __fspath__."""

    def __init__(self, path):
        self._path = path

    def __fspath__(self):
        return self._path

    def __repr__(self):
        return 'FsPath(%r)' % self._path


def path_in_form(path, form):
    """Absolute str path -> the same file in the given argument form."""
    import os
    import pathlib
    if form in (None, 'str'):
        return path
    if form == 'relative-str':
        return os.path.relpath(path)
    if form == 'pathlib.Path':
        return pathlib.Path(path)
    if form == 'pathlib.PurePosixPath':
        return pathlib.PurePosixPath(path)
    if form == 'os.PathLike':
        return FsPath(path)
    raise ValueError(form)


# ---- observations of one verification result object (C02 'observe'): the
# ways the statement says a result can be looked at
OBSERVATIONS = ['totals', 'counts', 'fields', 'frame', 'str']


PRECISIONS = [None, 'open', 'closed', 'fuzzy']
EPSILONS = [0, 0.01, 0.25, 0.5]
SUFFIX = {'type': 'type', 'min': 'min', 'min_length': 'min_length',
          'max': 'max', 'max_length': 'max_length', 'sign': 'sign',
          'max_nulls': 'nonnull', 'no_duplicates': 'nodups',
          'allowed_values': 'values', 'rex': 'rex'}


# --------------------------------------------------------------- columns

def tuples_upto(alphabet, R):
    for n in range(R + 1):
        for t in itertools.product(alphabet, repeat=n):
            yield list(t)


def manycat_columns():
    """n distinct strings, with/without a repeat and a null (7 x 2 x 2)."""
    for n in (0, 1, 2, 19, 20, 21, 25):
        base = ['s%02d' % i for i in range(n)]
        for rep in (0, 1):
            for nul in (0, 1):
                vals = list(base)
                if rep and base:
                    vals.append(base[0])
                if nul:
                    vals.append(None)
                yield {'fam': 'manycat', 'vals': vals}


UNUSED_CAT = 'M'       # lexically between 'B1' and 'a'


def cat_variant_columns(R, alpha=None):
    """Categorical columns as a product {unordered, ordered} x {categories ==
    values used, one unused category first / last in category order} x
    {category order lexical, reversed, rotated}; the plain pd.Categorical(v)
    form (unordered, used, lexical) is the base 'cat' family and is skipped
    here.  Same family name: the documented meaning of every constraint is
    about the VALUES, never about the declared categories or their order."""
    alpha = alpha or FAMILIES['cat']
    for vals in tuples_upto(alpha, R):
        used = sorted(set(v for v in vals if v is not None))
        seen = set()
        for extra in (None, 'first', 'last'):
            for order in ('lex', 'rev', 'rot'):
                cats = list(used)
                if order == 'rev':
                    cats.reverse()
                elif order == 'rot':
                    cats = cats[1:] + cats[:1]
                if extra == 'first':
                    cats = [UNUSED_CAT] + cats
                elif extra == 'last':
                    cats = cats + [UNUSED_CAT]
                for ordered in (False, True):
                    key = (tuple(cats), ordered)
                    if key in seen or (cats == used and not ordered):
                        continue
                    seen.add(key)
                    yield {'fam': 'cat', 'vals': vals, 'cats': cats,
                           'ordered': ordered}


def columns(tier, which='c02'):
    """Every column of every family up to R rows (deterministic order,
    short columns first inside a family)."""
    thorough = tier == 'thorough'
    plan = []
    if which == 'c02':
        plan = [('i64', 3), ('f64', 3), ('strobj', 3), ('Int64', 3),
                ('boolobj', 3), ('dt_ns', 3), ('bool', 3), ('u8', 2),
                ('i64x', 2), ('f64inf', 2), ('boolean', 2), ('cat', 3),
                ('dateobj', 2), ('dt_s', 2), ('dt_ms', 2), ('dt_us', 2),
                ('dttz_utc', 2), ('dttz_0530', 2)]
        if thorough:
            plan = [('i64', 4), ('f64', 4), ('strobj', 3), ('Int64', 4),
                    ('boolobj', 4), ('dt_ns', 3), ('bool', 4), ('u8', 4),
                    ('i64x', 3), ('f64inf', 3), ('boolean', 4), ('cat', 3),
                    ('dateobj', 3), ('dt_s', 3), ('dt_ms', 3), ('dt_us', 3),
                    ('dttz_utc', 3), ('dttz_0530', 2)]
    elif which == 'c06':
        plan = [('i64', 3), ('f64', 3), ('boolobj', 3), ('strobj', 3),
                ('dt_ns', 3), ('Int64', 3)]
        if thorough:
            plan = [('i64', 4), ('f64', 4), ('boolobj', 4), ('strobj', 3),
                    ('dt_ns', 3), ('Int64', 4), ('bool', 3), ('u8', 3),
                    ('boolean', 3), ('cat', 3), ('dateobj', 3), ('dt_s', 2),
                    ('dt_us', 2), ('f64inf', 3)]
    for fam, R in plan:
        alpha = FAMILIES[fam]
        if fam == 'strobj' and not thorough:
            alpha = STR_QUICK
        for t in tuples_upto(alpha, R):
            yield {'fam': fam, 'vals': t}
    for c in cat_variant_columns(3 if thorough else 2):
        yield c
    if which == 'c02' or thorough:
        for c in manycat_columns():
            yield c


def small_columns(tier, which='c02'):
    """Columns with <= 2 rows (used by the wider constraint-set layers)."""
    for c in columns(tier, which):
        if len(c['vals']) <= 2 or (c['fam'] == 'manycat'
                                   and len(c['vals']) in (19, 20, 21, 22)):
            yield c


# ------------------------------------------------- decoding to Python values

def is_null(e):
    return e is None


def py_value(fam, e):
    """Encoded data value -> plain Python value for the reference model.
    Instants become ('T', ns) tuples (exact integer nanoseconds)."""
    if e is None:
        return None
    if isinstance(e, list):
        tag = e[0]
        if tag == 'f':
            return float(e[1])
        if tag == 't':
            return ('T', int(e[1]))
        if tag == 'd':
            y, m, d = [int(x) for x in e[1].split('-')]
            return ('T', _ns(y, m, d))
        raise ValueError(e)
    return e


def py_column(col):
    return [py_value(col['fam'], e) for e in col['vals']]


def ns_to_datetime(ns, aware=False):
    dt = EPOCH + datetime.timedelta(microseconds=ns // 1000)
    if aware:
        dt = dt.replace(tzinfo=datetime.timezone.utc)
    return dt


def ns_to_text(ns):
    """The text tdda itself writes for a datetime (str(datetime))."""
    return str(ns_to_datetime(ns))


def py_bound(e):
    """Encoded bound -> (class, value) for the model: class in
    'null','number','string','date','date-aware','date-naive-text'."""
    if e is None:
        return ('null', None)
    if isinstance(e, bool) or isinstance(e, (int, float)):
        return ('number', e)
    if isinstance(e, str):
        return ('string', e)
    tag = e[0]
    if tag == 'f':
        return ('number', float(e[1]))
    if tag in ('ds', 'dsa'):
        return (('date' if tag == 'ds' else 'date-aware'), text_to_ns(e[1]))
    if tag == 'dto':
        return ('date', int(e[1]))
    if tag == 'dta':
        return ('date-aware', int(e[1]))
    raise ValueError(e)


def text_to_ns(text):
    t = text.replace('+00:00', '')
    if ' ' in t:
        d, hms = t.split(' ')
    else:
        d, hms = t, '00:00:00'
    y, mo, dd = [int(x) for x in d.split('-')]
    frac = 0
    if '.' in hms:
        hms, f = hms.split('.')
        assert len(f) == 6
        frac = int(f) * 1000
    h, mi, s = [int(x) for x in hms.split(':')]
    return _ns(y, mo, dd, h, mi, s, frac)


# ---------------------------------------------- decoding to pandas / tdda

def real_value(fam, e):
    import numpy as np
    if e is None:
        return None
    if isinstance(e, list):
        if e[0] == 'f':
            return float(e[1])
        if e[0] == 't':
            return np.datetime64(int(e[1]), 'ns')
        if e[0] == 'd':
            y, m, d = [int(x) for x in e[1].split('-')]
            return datetime.date(y, m, d)
    return e


def build_series(col):
    """Encoded column -> pandas Series of exactly the family's dtype."""
    import numpy as np
    import pandas as pd
    fam, vals = col['fam'], col['vals']
    v = [real_value(fam, e) for e in vals]
    if fam in ('i64', 'i64x'):
        return pd.Series(np.array(v, dtype='int64'))
    if fam == 'u8':
        return pd.Series(np.array(v, dtype='uint8'))
    if fam == 'Int64':
        return pd.Series(pd.array(v, dtype='Int64'))
    if fam in ('f64', 'f64inf'):
        return pd.Series(np.array([np.nan if x is None else x for x in v],
                                  dtype='float64'))
    if fam == 'bool':
        return pd.Series(np.array(v, dtype='bool'))
    if fam == 'boolean':
        return pd.Series(pd.array(v, dtype='boolean'))
    if fam in ('boolobj', 'strobj', 'dateobj', 'manycat'):
        return pd.Series(v, dtype=object)
    if fam == 'cat':
        if 'cats' in col:
            return pd.Series(pd.Categorical(v, categories=col['cats'],
                                            ordered=bool(col.get('ordered'))))
        return pd.Series(pd.Categorical(v))
    if fam.startswith('dt_') or fam in TZAWARE:
        unit = fam[3:] if fam.startswith('dt_') else 'us'
        arr = np.array([np.datetime64('NaT') if x is None else x for x in v],
                       dtype='datetime64[ns]').astype('datetime64[%s]' % unit)
        s = pd.Series(arr)
        if fam == 'dttz_utc':
            s = s.dt.tz_localize('UTC')
        elif fam == 'dttz_0530':
            s = s.dt.tz_localize('UTC').dt.tz_convert('+05:30')
        return s
    raise ValueError(fam)


def build_frame(cols, names, index=None):
    import pandas as pd
    d = {}
    for c, n in zip(cols, names):
        d[n] = build_series(c)
    df = pd.DataFrame(d)
    if isinstance(index, dict):
        # {'labels': [...] | None, 'name': str | None, 'colname': str | None}
        if index.get('labels') is not None:
            df.index = pd.Index(index['labels'])
        if index.get('name') is not None:
            df.index.name = index['name']
        if index.get('colname') is not None:
            df.columns.name = index['colname']
    elif index is not None:
        df.index = pd.Index(index)
    return df


def real_bound(e):
    """Encoded bound -> the value put into the constraints dictionary."""
    if e is None:
        return None
    if isinstance(e, list):
        tag = e[0]
        if tag == 'f':
            return float(e[1])
        if tag in ('ds', 'dsa'):
            return e[1]
        if tag == 'dto':
            return ns_to_datetime(int(e[1]))
        if tag == 'dta':
            return ns_to_datetime(int(e[1]), aware=True)
        raise ValueError(e)
    return e


def bound_needs_type_date(e):
    return isinstance(e, list) and e[0] in ('ds', 'dsa')


# ------------------------------------------------ boundary-derived values

def _uniq(seq):
    out, seen = [], set()
    for x in seq:
        k = repr(x) + type(x).__name__
        if k not in seen:
            seen.add(k)
            out.append(x)
    return out


def _enc_float(x):
    if isinstance(x, float) and math.isinf(x):
        return ['f', 'inf' if x > 0 else '-inf']
    return x


def _exact_preimages(m, eps):
    """Bounds x whose fuzzy threshold x -/+ eps*|x| is exactly m (all
    arithmetic exact in binary), so that m sits ON the fuzzy boundary."""
    out = []
    fm, fe = Fraction(m), Fraction(eps)
    for s in (1 - fe, 1 + fe):
        x = fm / s
        try:
            xf = float(x)
        except OverflowError:
            continue
        if Fraction(xf) != x:
            continue
        if x.denominator == 1 and abs(x) < 2 ** 53:
            out.append(int(x))
        else:
            out.append(xf)
    return out


def numeric_bounds(fam, pyvals, side, tier):
    """Bounds for min (side=-1) / max (side=+1) derived from the data."""
    nn = [v for v in pyvals if v is not None]
    fin = [v for v in nn if not (isinstance(v, float) and math.isinf(v))]
    if not nn:
        return [0, 1, -1, 2.5, None]
    m = min(nn) if side < 0 else max(nn)
    if isinstance(m, bool):
        m = int(m)
    if isinstance(m, float) and math.isinf(m):
        base = [m, -m, 0, 1.0, None]
        if fin:
            base += [min(fin), max(fin)]
        return [_enc_float(x) for x in _uniq(base)]
    if fam == 'i64x':
        return _uniq([m - 1, m, m + 1, 0, -m, None])
    out = [m - 1, m, m + 1, 0, -m, None]
    if fam in BOOLS:
        out += [bool(m), not bool(m)]
    out += [m - 0.25, m + 0.25]
    if fam in REAL:
        out += [math.nextafter(float(m), -math.inf),
                math.nextafter(float(m), math.inf)]
    for eps in (0.25, 0.5):
        for x in _exact_preimages(m, eps):
            out += [x, x - 1, x + 1]
            if fam in REAL or tier == 'thorough':
                out += [x - 0.25, x + 0.25]
    # 1% band: bounds 2% inside / outside the eps=0.01 threshold
    if m != 0:
        out += [m * 1.03125, m * 0.96875]
    return [_enc_float(x) for x in _uniq(out)]


def date_bounds(fam, pyvals, side, tier):
    nn = [v[1] for v in pyvals if v is not None]
    if not nn:
        ns0 = _ns(2000, 1, 1)
        return [['ds', ns_to_text(ns0)], ['dto', ns0], None]
    m = min(nn) if side < 0 else max(nn)
    if fam in TZAWARE:
        step = 1000
        out = []
        for x in (m - step, m, m + step):
            out.append(['dta', x])
        for x in (m - step, m, m + step):
            out.append(['dsa', ns_to_text(x) + '+00:00'])
        out.append(['ds', ns_to_text(m)])         # naive text: unspecified
        out.append(None)
        return out
    unit = {'dt_s': 10 ** 9, 'dt_ms': 10 ** 6, 'dt_us': 1000, 'dt_ns': 1000,
            'dateobj': DAY}[fam]
    mt = (m // 1000) * 1000          # bounds carry microseconds at most
    xs = _uniq([mt - unit, mt, mt + unit, mt - DAY, mt + DAY])
    if mt != m:
        xs = _uniq(xs + [mt + 1000])
    out = [['ds', ns_to_text(x)] for x in xs]
    if mt % DAY == 0:
        out.append(['ds', ns_to_text(mt)[:10]])          # date-only text
    out += [['dto', x] for x in (mt - unit, mt, mt + unit)]
    out.append(None)
    return out


def string_bounds(fam, pyvals, side, tier, cats=None):
    nn = [v for v in pyvals if v is not None]
    if not nn:
        return ['a', None] + ([UNUSED_CAT] if cats else [])
    m = min(nn) if side < 0 else max(nn)
    out = [m, m + 'a', None]
    if m:
        out.append(m[:-1])
    else:
        out.append('')
    if cats is not None:
        # bounds inside the category set (every category, used or not) as
        # well as outside it (the derived ones above)
        out += list(cats)
    return _uniq(out)


def minmax_bounds(col, side, tier):
    fam = col['fam']
    pv = py_column(col)
    if fam in NUMERIC:
        out = numeric_bounds(fam, pv, side, tier)
        out.append('x')                       # wrong coarse type: gray
    elif fam in DATES:
        out = date_bounds(fam, pv, side, tier)
        out.append(1)
    else:
        out = string_bounds(fam, pv, side, tier, col.get('cats'))
        out.append(1)
    return out


def length_values(col, side):
    pv = [v for v in py_column(col) if isinstance(v, str)]
    if not pv:
        return [0, 1, None]
    L = min(len(v) for v in pv) if side < 0 else max(len(v) for v in pv)
    return _uniq([x for x in (L - 1, L, L + 1) if x >= 0] + [None])


def max_nulls_values(col):
    n = sum(1 for e in col['vals'] if e is None)
    return _uniq([x for x in (n - 1, n, n + 1) if x >= 0] + [None])


def allowed_values_values(col):
    """exact set, minus one, plus one, [], None (same-type values only)."""
    fam = col['fam']
    out = [[], None]
    if fam in DATES:
        return out
    seen = []
    for e in col['vals']:
        if e is not None and e not in seen:
            seen.append(e)
    extra = {'i64': 7, 'u8': 7, 'i64x': 7, 'Int64': 7, 'f64': 7.5,
             'f64inf': 7.5, 'strobj': 'zz', 'cat': 'zz', 'manycat': 'zz'}
    exact = list(seen)
    if seen:
        out.append(exact)
        out.append(exact[1:])
        out.append(list(reversed(exact)))
    if col.get('cats') and UNUSED_CAT in col['cats']:
        out.append(exact + [UNUSED_CAT])
    if fam in extra:
        out.append(exact + [extra[fam]])
        if not seen:
            out.append([extra[fam]])
    elif fam in BOOLS:
        for x in ([True], [False], [True, False]):
            if x not in out:
                out.append(x)
    return out


def rex_values(col):
    """[matching], [non-matching], [one matching one not], [], unanchored
    (gray), None."""
    import re
    pv = []
    for v in py_column(col):
        if isinstance(v, str) and v not in pv:
            pv.append(v)
    full = ['^%s$' % re.escape(s) for s in pv]
    out = [None, [], ['^\\d{7}$']]
    if pv:
        out.append(full)
        out.append(list(reversed(full)) + ['^\\d{7}$'])
        out.append(['^.*$'])
        if len(full) > 1:
            out.append(full[:1])
            out.append(full[1:])
        out.append([re.escape(pv[0])])          # unanchored: gray zone
        out.append(['^.'])                      # prefix only: gray zone
    else:
        out.append(['^a$'])
    return out


def constraint_values(col, kind, tier):
    """All values tried for one kind on one column (encoded)."""
    if kind == 'type':
        return list(TYPE_VALUES)
    if kind == 'min':
        return minmax_bounds(col, -1, tier)
    if kind == 'max':
        return minmax_bounds(col, +1, tier)
    if kind == 'min_length':
        return length_values(col, -1)
    if kind == 'max_length':
        return length_values(col, +1)
    if kind == 'sign':
        return SIGNS + [None]
    if kind == 'max_nulls':
        return max_nulls_values(col)
    if kind == 'no_duplicates':
        return [True, False, None]
    if kind == 'allowed_values':
        return allowed_values_values(col)
    if kind == 'rex':
        return rex_values(col)
    raise ValueError(kind)


def decode_constraint_value(kind, e):
    """Encoded constraint value -> real value for the constraints dict."""
    if kind in ('min', 'max'):
        return real_bound(e)
    if kind == 'allowed_values' and e is not None:
        return [real_bound(x) for x in e]
    return e


def variants(kind, e):
    """Evaluation variants of one constraint: (precision, epsilon,
    type_checking, dict_form).  epsilon 'none' = not passed."""
    if kind in ('min', 'max'):
        out = []
        for prec in PRECISIONS:
            if prec in ('open', 'closed'):
                eps_list = [0, 0.5]
            elif prec == 'fuzzy':
                eps_list = [0, 0.01, 0.5]
            else:
                eps_list = EPSILONS + ['none']
            for eps in eps_list:
                out.append({'prec': prec, 'eps': eps, 'tc': None})
        return out
    if kind == 'type':
        return [{'prec': None, 'eps': 0, 'tc': 'strict'},
                {'prec': None, 'eps': 0, 'tc': 'sloppy'},
                {'prec': None, 'eps': 0, 'tc': None}]
    return [{'prec': None, 'eps': 0, 'tc': None}]
