"""
Alphabets, option points, input-form builders and PRNG seams for the rexpy
checks C14 and C18 (self-contained; DESIGN.md 3.3 and 4/C14, 4/C18).

Nothing here imports tdda at module import time.
"""
import itertools
import math

# --------------------------------------------------------------- characters

SIGMA_Q = ['a', 'Z', '0', '_', '-', '.', '^', ']', '\\', ' ', 'é',
           '٣']
SIGMA_T = SIGMA_Q + ['\t', '\n', '²', 'Ⅷ', 'ß', '€', '"',
                     "'", '*', '+', '(', '|', '$', '{']
SIGMA_8 = ['a', 'Z', '0', '-', '.', ' ', 'é', '_']

STRUCTURED = [
    'a-b', 'c-d-e', 'AB12', 'ab12', '1.2.3', 'x_y', 'a b', ' a ', 'a1', '1a',
    'a1b', 'aB', 'abc', 'ab', 'b', 'A', '1', '12', 'a.b', 'a-b-c', 'EH1 2AB',
    'G12 8QQ', 'aé', 'a_b', 'a-', '-a', 'a--b', 'A-1', 'a  b', '1-2',
]


def _uniq(seq):
    seen = set()
    out = []
    for s in seq:
        if s not in seen:
            seen.add(s)
            out.append(s)
    return out


def strings_upto(sigma, L):
    out = ['']
    for n in range(1, L + 1):
        out.extend(''.join(t) for t in itertools.product(sigma, repeat=n))
    return out


# pairs: every string over SIGMA_Q of length <= 1, every length-2 string over
# the 8-character sub-alphabet, and the structured examples  (13+64+30 = 107)
A_PAIR = _uniq(strings_upto(SIGMA_Q, 1)
               + [''.join(t) for t in itertools.product(SIGMA_8, repeat=2)]
               + STRUCTURED)
# the whole of DESIGN 3.3's quick string set (157) + structured: thorough pairs
A_PAIR_T = _uniq(strings_upto(SIGMA_Q, 2) + STRUCTURED)

# triples (30): fine-class sequences, alignment, whitespace, unicode, specials
A_TRIPLE = ['', 'a', 'b', 'A', '0', '1', 'a1', '1a', 'ab', 'aB', 'a1b', 'abc',
            '-', '.', 'a-b', 'c-d', 'a-b-c', 'a.b', 'a b', ' a', 'a ',
            'é', 'aé', '_', 'a_b', '12', 'AB12', 'ab12', '1.2.3',
            '^']
# thorough triples (55)
A_TRIPLE_T = _uniq(A_TRIPLE + [
    'Z', ']', '\\', ' ', '٣', 'c-d-e', 'x_y', ' a ', 'EH1 2AB', 'G12 8QQ',
    'a-', '-a', 'a--b', 'A-1', 'a  b', '1-2', '0a', 'a0', 'Z0', '--', '..',
    '-.', 'a.', '.a', 'éé'])
# thorough quadruples (20)
A_QUAD = ['', 'a', 'A', '1', 'a1', '1a', 'ab', 'a1b', '-', '.', 'a-b',
          'a-b-c', 'a.b', 'a b', ' a', 'é', '_', '12', 'AB12', '^']
# options layer (40)
A_OPT = _uniq(A_TRIPLE + ['Z', ']', '\\', ' ', 'x_y', ' a ', 'a-', '-a',
                          'A-1', 'a  b'])

# thorough options layer for pairs
A_OPT_T = _uniq(A_OPT + A_TRIPLE_T + STRUCTURED + [
    ''.join(t) for t in itertools.product(['a', '0', '-', ' ', '_'],
                                          repeat=2)])

# quick-tier reductions
A_PAIR_Q = _uniq(strings_upto(SIGMA_Q, 1)
                 + [''.join(t) for t in itertools.product(SIGMA_8[:7],
                                                          repeat=2)]
                 + STRUCTURED)
A_TRIPLE_Q = [x for x in A_TRIPLE if x not in ('1a', 'c-d', 'a ', '12')]
A_OPT_Q = A_OPT[:34]

# sampled path: 8-string sub-alphabet
A_SAMPLED = ['a', '1', '-', 'ab', '12', 'a-b', 'A', ' ']


def subsets(alpha, n):
    return itertools.combinations(alpha, n)


# ------------------------------------------------------------ option points

OPTIONS = [
    {},                                                    # 0 default
    {'variableLengthFrags': True},                         # 1
    {'extra_letters': '_-.'},                              # 2
    {'strip': True, 'remove_empties': True},               # 3
    {'tag': True, 'dialect': 'perl'},                      # 4
    {'extra_letters': '_', 'variableLengthFrags': True,
     'dialect': 'grep'},                                   # 5
    {'strip': True, 'tag': True},                          # 6
    {'remove_empties': True, 'extra_letters': '-'},        # 7
]

# Size points that force sampling on >= 3 distinct examples
SIZE_POINTS = [{'do_all': a, 'do_all_exceptions': e,
                'max_sampled_attempts': m}
               for a in (1, 2) for e in (1, 2) for m in (1, 2)]


# ------------------------------------------------------- shapes (signatures)

def char_class(c):
    if c.isalnum() or c == '_':
        return 'A'
    if c.isspace():
        return 's'
    if 32 < ord(c) < 127:
        return 'p'
    return 'o'


def shape(s):
    """run-collapsed class string of an example, e.g. 'a-b' -> 'ApA'"""
    out = []
    for c in s:
        k = char_class(c)
        if not out or out[-1] != k:
            out.append(k)
    return ''.join(out) or 'e'


def shapes(xs):
    return '|'.join(sorted(shape(s) for s in xs))


# -------------------------------------------------------------- input forms

def round_robin(xs, freqs):
    """list with xs[i] occurring freqs[i] times; first occurrences in order"""
    out = []
    for r in range(max(freqs) if freqs else 0):
        for x, f in zip(xs, freqs):
            if f > r:
                out.append(x)
    return out


def repeat_vectors(n):
    """each element alone raised to 2 and to 3, and everything doubled"""
    out = []
    for i in range(n):
        for f in (2, 3):
            v = [1] * n
            v[i] = f
            out.append(v)
    if n > 1:
        out.append([2] * n)
    return out


# ------------------------------------------------------------ PRNG seams

class RecRandom(object):
    """Stands in for the `random` module inside rexpy; delegates to the real
    generator and records the calls."""

    def __init__(self):
        import random
        self._r = random
        self.log = []
        self._saved = []

    def getstate(self):
        st = self._r.getstate()
        self._saved.append(st)
        self.log.append(('getstate', len(self._saved) - 1))
        return st

    def seed(self, n=None):
        self.log.append(('seed', n))
        return self._r.seed(n)

    def setstate(self, st):
        idx = None
        for i, s in enumerate(self._saved):
            if s is st or s == st:
                idx = i
        self.log.append(('setstate', idx))
        return self._r.setstate(st)

    def sample(self, population, k):
        self.log.append(('sample', len(population), k))
        return self._r.sample(population, k)

    def random(self):
        self.log.append(('random',))
        return self._r.random()

    def __getattr__(self, name):
        # anything else rexpy might start to use: delegate, but record
        self.log.append(('other:%s' % name,))
        return getattr(self._r, name)


class FakeRandom(object):
    """Stands in for the `random` module inside rexpy; sample() is a choice
    point among all C(n,k) subsets (and, if `orders`, both orders), the
    generator state is a token so that bracketing can be asserted."""

    def __init__(self, chooser, orders=False):
        self.chooser = chooser
        self.orders = orders
        self.state = ('U', 0)
        self.log = []
        self._saved = []

    def getstate(self):
        self._saved.append(self.state)
        self.log.append(('getstate', len(self._saved) - 1))
        return self.state

    def seed(self, n=None):
        self.log.append(('seed', n))
        self.state = ('S', n, 0)

    def setstate(self, st):
        idx = None
        for i, s in enumerate(self._saved):
            if s == st:
                idx = i
        self.log.append(('setstate', idx))
        self.state = st

    def sample(self, population, k):
        n = len(population)
        self.log.append(('sample', n, k))
        if k < 0 or k > n:
            raise ValueError('Sample larger than population or is negative')
        ncomb = math.comb(n, k)
        total = ncomb * (2 if (self.orders and k > 1) else 1)
        c = self.chooser.choose(total)
        rev = c >= ncomb
        c = c % ncomb
        idx = next(itertools.islice(itertools.combinations(range(n), k), c,
                                    None))
        if rev:
            idx = tuple(reversed(idx))
        self.state = self.state[:-1] + (self.state[-1] + 1,)
        pop = list(population)
        return [pop[i] for i in idx]


def bracket_faults(log, seed):
    """Independent reading of 'saved, seeded and restored around extraction':
    every sample call must lie after a seed(seed) that was preceded by a
    getstate, and before the setstate that restores that saved state; at the
    end no bracket may be open.  Returns sorted list of fault names."""
    faults = set()
    inside = False
    saved_idx = None
    last_get = None
    seen_seed = False
    seen_restore = False
    for ev in log:
        k = ev[0]
        if k == 'getstate':
            last_get = ev[1]
        elif k == 'seed':
            if ev[1] != seed:
                faults.add('wrong-seed')
            if last_get is None:
                faults.add('seed-without-save')
            inside = True
            seen_seed = True
            saved_idx = last_get
            last_get = None
        elif k == 'setstate':
            if not inside:
                faults.add('restore-without-seed')
            elif ev[1] is None or ev[1] != saved_idx:
                faults.add('restore-wrong-state')
            inside = False
            seen_restore = True
        elif k in ('sample', 'random') or k.startswith('other:'):
            if not inside:
                if not seen_seed:
                    faults.add('draw-before-seed')
                elif seen_restore:
                    faults.add('draw-after-restore')
                else:
                    faults.add('draw-outside-bracket')
    if inside:
        faults.add('no-restore')
    return sorted(faults)


def n_draws(log):
    return sum(1 for ev in log if ev[0] in ('sample', 'random')
               or ev[0].startswith('other:'))


# ------------------------------------------------------------- watchdog

class CaseTimeout(BaseException):
    """raised inside whatever code is running when a case has used more CPU
    time than allowed (a hang in tdda then surfaces as a violation
    `uncaught:CaseTimeout` through the engine, not as a stuck run)"""


class Watchdog(object):
    """CPU-time (not wall-clock) limit for one case; after `max_trips`
    time-outs in this process `tripped()` tells the driver to stop running
    further cases (the check has failed already)."""
    trips = 0
    max_trips = 3

    def __init__(self, cpu_seconds):
        self.secs = cpu_seconds

    @classmethod
    def tripped(cls):
        return cls.trips >= cls.max_trips

    def _fire(self, signum, frame):
        Watchdog.trips += 1
        raise CaseTimeout('case used more than %d s of CPU' % self.secs)

    def __enter__(self):
        import signal
        self._old = signal.signal(signal.SIGVTALRM, self._fire)
        signal.setitimer(signal.ITIMER_VIRTUAL, self.secs)
        return self

    def __exit__(self, *exc):
        import signal
        signal.setitimer(signal.ITIMER_VIRTUAL, 0)
        signal.signal(signal.SIGVTALRM, self._old)
        return False


# ------------------------------------------- module state (E3 histories)

_CONTAINERS = (dict, list, set)
_SCALARS = (int, float, str, bool, tuple, frozenset, type(None))
_WRITE_ONLY = ('nCalls',)


def _slots(mod):
    """(owner namespace, owner label, name, value) for every module global
    and every attribute of a class defined in the module that can carry
    state from one call to the next"""
    import types
    for name, v in list(vars(mod).items()):
        if name.startswith('__'):
            continue
        if isinstance(v, types.ModuleType) or callable(v) and \
                not isinstance(v, type):
            continue
        if isinstance(v, type):
            if getattr(v, '__module__', None) != mod.__name__:
                continue
            for an, av in list(vars(v).items()):
                if an.startswith('__') or callable(av) or \
                        isinstance(av, (property, classmethod, staticmethod)):
                    continue
                if isinstance(av, _CONTAINERS + _SCALARS):
                    yield v, v.__name__, an, av
            continue
        if isinstance(v, _CONTAINERS + _SCALARS):
            yield mod, '', name, v


def state_snapshot(mod):
    import copy
    return [(owner, label, name, copy.copy(v) if isinstance(v, _CONTAINERS)
             else v, v) for owner, label, name, v in _slots(mod)]


def state_restore(mod, snap):
    """put every state-carrying slot back to its pristine value (containers
    in place, so references held elsewhere see it); slots that did not exist
    in the pristine module are emptied"""
    known = set()
    for owner, label, name, saved, obj in snap:
        known.add((label, name))
        if isinstance(obj, dict):
            obj.clear()
            obj.update(saved)
        elif isinstance(obj, list):
            del obj[:]
            obj.extend(saved)
        elif isinstance(obj, set):
            obj.clear()
            obj.update(saved)
        if isinstance(owner, type):
            if vars(owner).get(name) is not obj:
                setattr(owner, name, obj)
        elif vars(owner).get(name) is not obj:
            setattr(owner, name, obj)
    for owner, label, name, v in list(_slots(mod)):
        if (label, name) not in known and isinstance(v, _CONTAINERS):
            v.clear()


def _rep(v):
    if isinstance(v, _SCALARS):
        return repr(v)
    return type(v).__name__


def state_fingerprint(mod):
    """hashable summary of everything a later call could read"""
    out = []
    for owner, label, name, v in _slots(mod):
        if name in _WRITE_ONLY:
            continue
        if isinstance(v, dict):
            body = tuple(sorted((repr(k), _rep(x)) for k, x in v.items()))
        elif isinstance(v, set):
            body = tuple(sorted(repr(x) for x in v))
        elif isinstance(v, list):
            body = tuple(_rep(x) for x in v)
        else:
            body = repr(v)
        out.append((label, name, body))
    return hash(tuple(sorted(out)))


# ------------------------------------------------ wide sets (size limits)

def orders_bounded(K, wpos):
    """Deviation-bounded set of orders of K items (K! cannot be enumerated):
    identity, reverse, every rotation, every single adjacent transposition,
    and the item at index `wpos` moved to every position.  Returns a list of
    (label, index list), duplicates removed."""
    ident = list(range(K))
    out = [('identity', ident), ('reverse', ident[::-1])]
    for r in range(1, K):
        out.append(('rotate%d' % r, ident[r:] + ident[:r]))
    for i in range(K - 1):
        p = list(ident)
        p[i], p[i + 1] = p[i + 1], p[i]
        out.append(('swap%d' % i, p))
    rest = [i for i in ident if i != wpos]
    for pos in range(K):
        out.append(('widener@%d' % pos, rest[:pos] + [wpos] + rest[pos:]))
    seen = set()
    uniq = []
    for label, p in out:
        if tuple(p) not in seen:
            seen.add(tuple(p))
            uniq.append((label, p))
    return uniq


def _digits(n):
    return [str(i) for i in range(n)]


def _lower(n):
    return [chr(97 + i) for i in range(n)]


def _letdig(n):
    return [chr(97 + i) + str(i % 10) for i in range(n)]


def _hexl(n):
    return list('0123456789abcdef')[:n]


_PUNC_PLAIN = ['!', '#', '%', '&', ',', '/', ':', ';', '=', '@']
_PUNC_SPECIAL = [']', '^', '-', '\\', '$', '*', '.', '(', '|', '+']

# name -> (constant it straddles, largest K still inside, Ks, narrow value
#          generator, widening values, templates)
WIDE_FAMILIES = [
    ('digits', 'max_strings_in_group', 11, (10, 11, 12, 13), _digits,
     ['x', 'X', 'é'], ['{}', '#{}', '{}-z', 'id {}.']),
    ('lower', 'max_strings_in_group', 11, (10, 11, 12, 13), _lower,
     ['Q', '7', 'é'], ['{}', '#{}', '{}-z', 'id {}.']),
    ('letter-digit', 'max_strings_in_group', 11, (10, 11, 12, 13), _letdig,
     ['c', 'C3', '3c'], ['{}', '#{}', '{}-z']),
    ('hex', 'max_strings_in_group', 11, (10, 11, 12, 13), _hexl,
     ['g', 'G'], ['{}', '#{}', '{} z']),
    ('punct', 'max_punc_in_group', 5, (4, 5, 6, 7),
     lambda n: _PUNC_PLAIN[:n], ['?'], ['{}', 'a{}b', '{}1']),
    ('punct-special', 'max_punc_in_group', 5, (4, 5, 6, 7),
     lambda n: _PUNC_SPECIAL[:n], ['?', '_'], ['{}', 'a{}b']),
    ('run-length', 'MAX_VRLE_RANGE', 3, (2, 3, 4, 5),
     lambda n: ['a' * (i + 1) for i in range(n)], ['aaaaaaa', 'A'],
     ['{}', 'x-{}', '{}.{}']),
    ('run-length-punct', 'MAX_VRLE_RANGE', 3, (2, 3, 4, 5),
     lambda n: ['-' * (i + 1) for i in range(n)], ['-------'],
     ['{}', 'x{}y']),
]


def wide_examples(fam, K, widener, tpl):
    name, const, lim, Ks, gen, wid, tpls = fam
    vals = gen(K - 1) + [widener]
    return [tpl.replace('{}', v) for v in vals]


def long_string(R, tokens, ins=None):
    """string with exactly R character-class runs, cycling `tokens`; `ins`
    replaces the token in the middle (same class-run count if it is a run of
    its own class)"""
    parts = [tokens[i % len(tokens)] for i in range(R)]
    if ins is not None:
        parts[2 * (R // 4) + 1] = ins
    return ''.join(parts)
