"""
Fresh process state per case (used by C01 and C07).

A worker only IMPORTS tdda (and pandas, sqlite3); every execution of tdda code
happens in a child forked from that pristine image.  So the explorer (many
cases per worker) and the determinism gate / a replay (one case in a new
process) start every case from the same state "imported, never called", and
module- or class-level state that tdda might keep between calls can influence
only what follows it INSIDE one case, where the check enumerates and records
the history explicitly.  Forking costs a few ms; re-importing pandas would
cost ~1 s.
"""
import gc
import os
import pickle
import traceback
import warnings


class TddaEscaped(Exception):
    """An exception from tdda code escaped the driver inside the child."""

    def __init__(self, tname, rep, tb):
        Exception.__init__(self, '%s: %s' % (tname, rep))
        self.tname, self.rep, self.tb = tname, rep, tb


def single_threaded_env():
    """Call BEFORE numpy is imported: no BLAS/OpenMP helper threads, so the
    process is single-threaded when it forks."""
    for k in ('OPENBLAS_NUM_THREADS', 'OMP_NUM_THREADS', 'MKL_NUM_THREADS',
              'NUMEXPR_NUM_THREADS'):
        os.environ.setdefault(k, '1')


def freeze():
    """Call at the end of setup_worker: keeps the imported heap out of the
    children's garbage collections (no copy-on-write storms)."""
    gc.collect()
    gc.freeze()


def run_fresh(fn, *args):
    """fn(*args) in a forked child; returns its picklable result."""
    r, w = os.pipe()
    with warnings.catch_warnings():
        warnings.simplefilter('ignore')
        pid = os.fork()
    if pid == 0:
        code = 0
        try:
            gc.disable()
            os.close(r)
            try:
                payload = ('ok', fn(*args))
            except BaseException as e:
                from mc.engine import _origin_of
                payload = ('exc', _origin_of(e), type(e).__name__,
                           repr(e)[:300],
                           ''.join(traceback.format_exception(
                               type(e), e, e.__traceback__))[-3000:])
            with os.fdopen(w, 'wb') as f:
                f.write(pickle.dumps(payload))
        except BaseException:
            code = 3
        finally:
            os._exit(code)
    os.close(w)
    with os.fdopen(r, 'rb') as f:
        data = f.read()
    os.waitpid(pid, 0)
    if not data:
        raise RuntimeError('harness: forked child returned nothing')
    payload = pickle.loads(data)
    if payload[0] == 'ok':
        return payload[1]
    _, origin, tname, rep, tb = payload
    if origin == 'tdda':
        raise TddaEscaped(tname, rep, tb)
    raise RuntimeError('harness error in forked child:\n%s' % tb)
