# -*- coding: utf-8 -*-
"""
Text-line alphabets for C04 / C15 (DESIGN.md section 3.4).

Everything here is plain data plus deterministic enumerators; nothing imports
tdda.  Cases must be JSON serialisable, so an option point is a dict of plain
values and the preprocess function is named, not embedded.
"""
import itertools

# --- line alphabet -----------------------------------------------------------
# one line per class the comparison distinguishes:
#   plain / second plain and removable ('b') / leading blank / trailing blank /
#   one digit group / longer digit group / carries the ignore-substring 'X' /
#   non-ASCII and dropped by the preprocess function / empty
LAMBDA = ['a', 'b', ' a', 'a ', 'a1', 'a22', 'X a', 'é', '']

# extra single lines for the line-level layer: blanks next to digit groups
# (strip + pattern), two digit groups, realistic "took 12 ms" lines, the
# ignore-substring next to digits/blanks, removable text inside a longer line.
LAMBDA_X = LAMBDA + [
    'a1 ', ' a22', 'a3', 'a1b22', 'a22b1', 'a1b', '1', '22', 'a 1', 'a  22',
    'took 12 ms', 'took 3 ms', 'took 3 ms ', 'took ms', 'X a1', 'aX', 'x a',
    'ab', ' b', 'é 1', 'aé', 'a\t', '  ',
]

# reduced alphabet for the (slower) public entry points
LAMBDA_R = ['a', 'a ', 'a22', 'X a', 'b']
# second reduced alphabet: the lines LAMBDA_R leaves out
LAMBDA_R2 = ['a1', ' a', 'é', '', 'a']


def sequences(alphabet, maxlen, minlen=0):
    """Every sequence over alphabet with minlen <= length <= maxlen, shortest
    first, as lists."""
    for n in range(minlen, maxlen + 1):
        for t in itertools.product(alphabet, repeat=n):
            yield list(t)


# --- option product ----------------------------------------------------------
STRIPS = [(False, False), (True, False), (False, True), (True, True)]
SUBSTRINGS = [None, ['X']]
PATTERNS = [None, [r'\d'], [r'\d+'], [r'^a\d+$']]
REMOVES = [None, ['b']]
MPCS = [0, 1, 2, 3]
PREPROCESSES = [None, 'drop_eacute']


def drop_eacute(lines):
    """The preprocess function of the alphabet: drops every line that starts
    with e-acute.  Pure, returns a new list."""
    return [s for s in lines if not s.startswith('é')]


PREPROCESS_FUNCTIONS = {'drop_eacute': drop_eacute}


def option_point(lstrip=False, rstrip=False, ignore_substrings=None,
                 ignore_patterns=None, remove_lines=None,
                 max_permutation_cases=0, preprocess=None):
    return {'lstrip': lstrip, 'rstrip': rstrip,
            'ignore_substrings': ignore_substrings,
            'ignore_patterns': ignore_patterns,
            'remove_lines': remove_lines,
            'max_permutation_cases': max_permutation_cases,
            'preprocess': preprocess}


DEFAULT_POINT = option_point()
OPTION_NAMES = ['lstrip', 'rstrip', 'ignore_substrings', 'ignore_patterns',
                'remove_lines', 'max_permutation_cases', 'preprocess']


def option_points(strips=STRIPS, substrings=SUBSTRINGS, patterns=PATTERNS,
                  removes=REMOVES, mpcs=MPCS, preprocesses=PREPROCESSES):
    """The full product (4*2*4*2*4*2 = 512 points by default), in an order
    that puts the all-default point first."""
    out = []
    for pre in preprocesses:
        for rem in removes:
            for sub in substrings:
                for pat in patterns:
                    for mpc in mpcs:
                        for (ls, rs) in strips:
                            out.append(option_point(ls, rs, sub, pat, rem,
                                                    mpc, pre))
    return out


def n_set(point):
    """Number of options that differ from their default."""
    return sum(1 for k in OPTION_NAMES if point[k] != DEFAULT_POINT[k])


def is_subpoint(p, q):
    """p sets a subset of the options q sets, each to the same value."""
    for k in OPTION_NAMES:
        if p[k] != DEFAULT_POINT[k] and p[k] != q[k]:
            return False
    return True


def kwargs_of(point):
    """Keyword arguments for the tdda calls (preprocess name -> function)."""
    kw = dict(point)
    kw['preprocess'] = PREPROCESS_FUNCTIONS[kw['preprocess']] \
        if kw['preprocess'] else None
    return kw


def option_label(point):
    """Canonical short names of the options set at a point (for
    signatures): lstrip/rstrip -> strip, patterns by anchoring."""
    names = []
    if point['lstrip'] or point['rstrip']:
        names.append('strip')
    if point['ignore_substrings']:
        names.append('ignore_substrings')
    if point['ignore_patterns']:
        anch = all(p.startswith('^') and p.endswith('$')
                   for p in point['ignore_patterns'])
        names.append('ignore_patterns(%s)'
                     % ('anchored' if anch else 'unanchored'))
    if point['remove_lines']:
        names.append('remove_lines')
    if point['max_permutation_cases']:
        names.append('max_permutation_cases')
    if point['preprocess']:
        names.append('preprocess')
    return '+'.join(names) or 'no-options'


# --- permutation space (3- and 4-line sequences) ------------------------------
# distinct lines: two plain, one with a trailing blank, one with a digit group,
# one carrying the ignore-substring
PERM_LINES = ['a', 'b', 'c ', 'a1', 'X d']
# (actual line, reference line) of a genuinely altered / additionally inserted
# pair: one no option excuses, one an ignore-pattern excuses
PERM_EXTRA = [('z', 'y'), ('a22', 'a3')]
PERM_MPCS = [0, 1, 2, 3, 4, 5]


def permutation_pairs(lines=PERM_LINES, sizes=(3, 4), extras=PERM_EXTRA):
    """(actual, reference) pairs: reference = every combination of 3-4
    distinct lines (in alphabet order), actual = every permutation of it
    (the identity included); then every such pair with ONE further line
    altered in the actual at every position, and with one further differing
    pair of lines inserted at every position (before, between, after)."""
    for n in sizes:
        for ref in itertools.combinations(lines, n):
            ref = list(ref)
            for perm in itertools.permutations(ref):
                act = list(perm)
                yield act, ref
                for (xa, xe) in extras:
                    for k in range(n):
                        if act[k] != xa:
                            yield act[:k] + [xa] + act[k + 1:], ref
                    for k in range(n + 1):
                        yield act[:k] + [xa] + act[k:], ref[:k] + [xe] + ref[k:]


# --- multisets of lines (repeats) ---------------------------------------------
# two 3-line alphabets: three plain lines; and one where stripping merges two
MULTI_ALPHABETS = [['a', 'b', 'c'], ['a', 'a ', 'b']]


def multiset_pairs(alphabet, sizes=(3, 4, 5), full_reference_upto=4):
    """(actual, reference) pairs of equal length n over a 3-line alphabet WITH
    repeats: actual = every sequence of length n (so every permutation of the
    reference's multiset, every sequence with the same set of lines but other
    multiplicities, and everything else); reference = every sequence for
    n <= full_reference_upto, else every multiset in alphabet order."""
    for n in sizes:
        if n <= full_reference_upto:
            refs = itertools.product(alphabet, repeat=n)
        else:
            refs = itertools.combinations_with_replacement(alphabet, n)
        for ref in refs:
            for act in itertools.product(alphabet, repeat=n):
                yield list(act), list(ref)


# --- long texts (many lines, long lines) --------------------------------------
LONG_SIZES = [200, 1000, 5000]
LONG_DEVIATIONS = ['none', 'alter-first', 'alter-middle', 'alter-last',
                   'extra-actual', 'extra-reference', 'swap-far',
                   'swap-adjacent+alter-last', 'alter-first+swap-last-two']


def long_text(n, deviation, width=0):
    """(actual, reference) with n distinct lines 'row <i>' (each followed by
    `width` filler characters) and one named deviation in the actual."""
    pad = 'x' * width
    ref = ['row %d%s' % (i, pad) for i in range(n)]
    act = list(ref)
    for d in deviation.split('+'):
        if d == 'none':
            pass
        elif d == 'alter-first':
            act[0] = 'changed' + pad
        elif d == 'alter-middle':
            act[n // 2] = 'changed' + pad
        elif d == 'alter-last':
            act[n - 1] = pad + 'changed'
        elif d == 'extra-actual':
            act.append('one more' + pad)
        elif d == 'extra-reference':
            ref.append('one more' + pad)
        elif d == 'swap-far' and n > 1:
            act[0], act[n - 1] = act[n - 1], act[0]
        elif d == 'swap-adjacent' and n > 1:
            act[0], act[1] = act[1], act[0]
        elif d == 'swap-last-two' and n > 1:
            act[n - 2], act[n - 1] = act[n - 1], act[n - 2]
    return act, ref


# --- file level variants -----------------------------------------------------
# (newline sequence, number of final newlines)
FILE_FORMS = [('\n', 1), ('\n', 0), ('\n', 2), ('\r\n', 1), ('\r', 1)]


def content(lines, nl='\n', final=1):
    """Text of a file holding these lines.  final=0: no terminator after the
    last line; 1: every line terminated; 2: one extra terminator."""
    if final == 0:
        return nl.join(lines)
    s = ''.join(l + nl for l in lines)
    if final == 2:
        s += nl
    return s


# --- the FORM of a line-sequence argument -------------------------------------
# check_strings documents lists of strings; check_string_against_file /
# assertStringCorrect accept "a string (or list of strings)" and test for
# `type(actual) in (list, tuple)`.
CONTAINERS = ['list', 'tuple']


def as_container(lines, form):
    """A NEW object of the given form holding these lines."""
    return tuple(lines) if form == 'tuple' else list(lines)


# --- argument objects used more than once (C04 layer "reuse") ------------------
# every base sequence followed by 0..3 empty lines: trailing empty elements are
# the only ones the documented list convention lets the comparison drop
REUSE_BASES = [[], ['a'], ['b'], ['a', 'b'], ['a', '', 'b'], [' a'], ['a1']]
REUSE_TRAILING = [0, 1, 2, 3]


def reuse_sequences():
    for base in REUSE_BASES:
        for k in REUSE_TRAILING:
            yield list(base) + [''] * k


# --- file names and the encoding keyword (C04 layer "names") -------------------
# extension alphabet for both sides: ordinary text, the extension tdda treats
# specially, none at all, upper case, and a special extension that is not
# the last one
ACT_NAMES = ['out.txt', 'out.pdf', 'out', 'OUT.PDF', 'out.pdf.out']
REF_NAMES = ['ref.txt', 'ref.pdf', 'ref', 'REF.PDF', 'ref.pdf.ref']
# values of encoding= (file) / encodings=[...] (list of files)
ENCODINGS = [None, 'utf-8', 'iso-8859-1', 'UTF8']
# lines: ASCII, non-ASCII, and what the non-ASCII line looks like when its
# UTF-8 bytes are read as ISO-8859-1
NAME_LINES = ['a', 'é', 'Ã©']
NAME_POINTS = [{}, {'lstrip': True, 'rstrip': True},
               {'preprocess': 'drop_eacute'}, {'max_permutation_cases': 2}]


def extension_class(name):
    """Lower-cased last extension ('' if none) - for signatures only."""
    dot = name.rfind('.')
    return name[dot + 1:].lower() if dot > 0 else 'none'


# --- byte strings for the binary assertion -----------------------------------
BYTE_ALPHABET = [b'a', b'b', b'\x00', b'\xff', b'\n']


BYTE_PREFIX_LENGTHS = [0, 1, 4095, 4096, 4097, 8191, 8192, 8193, 65536]


def byte_prefix(n):
    """n bytes of a non-constant pattern whose period (251) divides no power
    of two, so no two aligned blocks are equal."""
    return bytes((i * 7 + i // 251) % 251 for i in range(n))


def byte_strings(maxlen, alphabet=BYTE_ALPHABET):
    for n in range(0, maxlen + 1):
        for t in itertools.product(alphabet, repeat=n):
            yield b''.join(t)


# --- harness helpers shared by C04 and C15 (tdda imported lazily) -----------

class AssertFailed(Exception):
    """Raised by the harness' own assert function: an ordinary assertion
    failure, as opposed to an internal error of tdda."""


def _assert_fn(ok, msg=None):
    if not ok:
        raise AssertFailed(msg)


class TextSandbox(object):
    """Per-worker directory tree under /var/tmp with ref/ (reference files),
    act/ (caller's actual files) and tmp/ (the configured tmp_dir), plus a
    ReferenceTest instance built on the harness' assert function."""

    def __init__(self, prefix):
        import os
        import tempfile
        from tdda.referencetest.referencetest import ReferenceTest
        self.root = tempfile.mkdtemp(prefix=prefix, dir='/var/tmp')
        self.ref = os.path.join(self.root, 'ref')
        self.act = os.path.join(self.root, 'act')
        self.tmp = os.path.join(self.root, 'tmp')
        # a second configurable tmp_dir and a second reference location for
        # the configuration histories (C15 layer "config")
        self.tmp2 = os.path.join(self.root, 'tmp2')
        self.ref2 = os.path.join(self.root, 'ref2')
        for d in (self.ref, self.act, self.tmp, self.tmp2, self.ref2):
            os.mkdir(d)
        self.RT = ReferenceTest
        self._saved = (ReferenceTest.verbose, ReferenceTest.tmp_dir)
        ReferenceTest.set_defaults(verbose=False, tmp_dir=self.tmp)
        ReferenceTest.regenerate.clear()
        self.rt = ReferenceTest(_assert_fn)

    @staticmethod
    def write(path, data):
        if isinstance(data, str):
            data = data.encode('utf-8')
        with open(path, 'wb') as f:
            f.write(data)

    @staticmethod
    def read(path):
        with open(path, 'rb') as f:
            return f.read()

    def clean(self, *dirs):
        import os
        for d in dirs or (self.tmp,):
            for name in os.listdir(d):
                p = os.path.join(d, name)
                if os.path.isdir(p):
                    import shutil
                    shutil.rmtree(p)
                else:
                    os.remove(p)

    def call(self, method, *args, **kw):
        """('pass', None) | ('fail', message) | ('error', exception)."""
        return self.call_on(self.rt, method, *args, **kw)

    def call_on(self, rt, method, *args, **kw):
        """The same through another ReferenceTest instance."""
        import contextlib
        import io
        self.RT.regenerate.clear()
        sink = io.StringIO()
        try:
            with contextlib.redirect_stdout(sink), \
                    contextlib.redirect_stderr(sink):
                getattr(rt, method)(*args, **kw)
            return ('pass', None)
        except AssertFailed as e:
            return ('fail', e.args[0] if e.args else '')
        except Exception as e:
            return ('error', e)

    def close(self):
        import shutil
        self.RT.verbose, self.RT.tmp_dir = self._saved
        shutil.rmtree(self.root, ignore_errors=True)
