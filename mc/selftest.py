"""setup_cmd: verifies the tool chain the checks rely on (no build step)."""
import json, os, subprocess, sys
from mc import engine


def main():
    engine.install_tdda_path()
    import tdda, pandas, numpy
    assert os.path.abspath(tdda.__file__).startswith(engine.TDDA_SRC), tdda.__file__
    print('tdda from', os.path.dirname(tdda.__file__), 'pandas', pandas.__version__)
    # E2 explorer: full binary tree of depth 3 has 8 executions; bound 1 has 4
    def run(ch):
        return tuple(ch.choose(2) for _ in range(3))
    allx = sorted(o for _, o in engine.explore_choices(run))
    assert len(allx) == 8 and len(set(allx)) == 8, allx
    b1 = [o for _, o in engine.explore_choices(run, bound=1)]
    assert len(b1) == 4, b1
    # determinism of replay: same case twice in fresh processes
    case = {'struct': [{'name': 'TA', 'tag': 0, 'base': None,
                        'methods': [['test_a', 1, 0], ['test_b', 0, 0]]}],
            'argv': ['-v', '-1']}
    o1 = engine.replay_observation('C19', 'quick', case)
    o2 = engine.replay_observation('C19', 'quick', case)
    assert o1 == o2 and 'error' not in o1, (o1, o2)
    json.load(open(engine.KNOWN_FINDINGS))
    json.load(open(engine.EVIDENCE_SCHEMA))
    p = subprocess.run(['python3-vt', '-c', 'import jsonschema'], capture_output=True)
    assert p.returncode == 0, 'python3-vt/jsonschema missing'
    print('selftest ok')


if __name__ == '__main__':
    main()
